// Package verifrace is engine R (DESIGN.md 1.6, 5/C20): the unmodified raft package with real
// sync and real goroutines, inside a testing/synctest bubble (fake clock), under the Go race
// detector. Workload, faults and timing come from per-component PRNG streams derived from one
// seed; which goroutine runs first inside one virtual instant is the Go runtime's decision.
package verifrace

import (
	"bytes"
	"encoding/binary"
	"errors"
	"flag"
	"fmt"
	"io"
	"math/rand"
	"os"
	"path/filepath"
	"sync"
	"sync/atomic"
	"testing"
	"testing/synctest"
	"time"

	"github.com/jmsadair/raft"
	"github.com/jmsadair/raft/logging"
)

var (
	flagSeed  = flag.Int64("seed", 1, "first seed")
	flagSeeds = flag.Int("seeds", 4, "number of seeds (bubbles)")
	flagDir   = flag.String("dir", "", "scratch directory for node data (default: test temp dir)")
	flagBudget = flag.Duration("budget", 0, "stop starting new seeds after this wall time")
)

// ---------------------------------------------------------------- state machine

type sm struct {
	mu        sync.Mutex
	ops       [][]byte
	threshold int
	// Every few calls the state machine is slow (fake time passes inside the call, outside
	// its own lock): the library calls it with the node lock released, and whatever else
	// the node does meanwhile (heartbeat replies, role changes) overlaps the call.
	calls atomic.Int64
	slow  time.Duration
}

func (s *sm) Apply(op *raft.Operation) interface{} {
	if n := s.calls.Add(1); s.slow > 0 && n%3 == 0 {
		time.Sleep(s.slow * time.Duration(1+n%4))
	}
	s.mu.Lock()
	defer s.mu.Unlock()
	if op.OperationType == raft.Replicated {
		s.ops = append(s.ops, append([]byte(nil), op.Bytes...))
	}
	return len(s.ops)
}

func (s *sm) Snapshot(w io.Writer) error {
	// Fake time stands still while goroutines compute, and the repository names snapshot
	// directories by time.Now().UnixNano(): two snapshots of one node in one fake instant
	// would collide ("file exists" -> Fatal -> the whole test process exits). A snapshot takes
	// a little (fake) time, as it does on real hardware.
	time.Sleep(time.Duration(1+s.calls.Add(1)%997) * time.Nanosecond)
	s.mu.Lock()
	defer s.mu.Unlock()
	var b bytes.Buffer
	binary.Write(&b, binary.BigEndian, uint32(len(s.ops)))
	for _, o := range s.ops {
		binary.Write(&b, binary.BigEndian, uint32(len(o)))
		b.Write(o)
	}
	_, err := w.Write(b.Bytes())
	return err
}

func (s *sm) Restore(r io.Reader) error {
	data, err := io.ReadAll(r)
	if err != nil {
		return err
	}
	s.mu.Lock()
	defer s.mu.Unlock()
	// Tolerant decoder: this engine looks for data races, not for snapshot content.
	s.ops = nil
	if len(data) < 4 {
		return nil
	}
	n := int(binary.BigEndian.Uint32(data))
	p := 4
	for i := 0; i < n && p+4 <= len(data); i++ {
		l := int(binary.BigEndian.Uint32(data[p:]))
		p += 4
		if p+l > len(data) {
			break
		}
		s.ops = append(s.ops, append([]byte(nil), data[p:p+l]...))
		p += l
	}
	return nil
}

func (s *sm) NeedSnapshot(logSize int) bool { return s.threshold > 0 && logSize >= s.threshold }

// ---------------------------------------------------------------- network

type network struct {
	mu      sync.Mutex
	nodes   map[string]*memTransport // by address
	cut     map[string]bool          // "from>to"
	rng     *rand.Rand
	dropPm  int
	maxDelay time.Duration
}

func (n *network) plan(from, to string) (time.Duration, bool) {
	n.mu.Lock()
	defer n.mu.Unlock()
	d := time.Duration(n.rng.Int63n(int64(n.maxDelay) + 1))
	if n.cut[from+">"+to] || n.rng.Intn(1000) < n.dropPm {
		return d, false
	}
	return d, true
}

func (n *network) lookup(addr string) *memTransport {
	n.mu.Lock()
	defer n.mu.Unlock()
	return n.nodes[addr]
}

type memTransport struct {
	net   *network
	addr  string
	codec raft.Transport

	mu      sync.Mutex
	running bool
	ae      func(*raft.AppendEntriesRequest, *raft.AppendEntriesResponse) error
	rv      func(*raft.RequestVoteRequest, *raft.RequestVoteResponse) error
	is      func(*raft.InstallSnapshotRequest, *raft.InstallSnapshotResponse) error
}

var errNet = errors.New("memnet: rpc failed")

func (t *memTransport) Run() error      { t.mu.Lock(); t.running = true; t.mu.Unlock(); return nil }
func (t *memTransport) Shutdown() error { t.mu.Lock(); t.running = false; t.mu.Unlock(); return nil }
func (t *memTransport) Address() string { return t.addr }
func (t *memTransport) RegisterAppendEntriesHandler(h func(*raft.AppendEntriesRequest, *raft.AppendEntriesResponse) error) {
	t.mu.Lock()
	t.ae = h
	t.mu.Unlock()
}
func (t *memTransport) RegisterRequestVoteHandler(h func(*raft.RequestVoteRequest, *raft.RequestVoteResponse) error) {
	t.mu.Lock()
	t.rv = h
	t.mu.Unlock()
}
func (t *memTransport) RegsiterInstallSnapshotHandler(h func(*raft.InstallSnapshotRequest, *raft.InstallSnapshotResponse) error) {
	t.mu.Lock()
	t.is = h
	t.mu.Unlock()
}
func (t *memTransport) EncodeConfiguration(c *raft.Configuration) ([]byte, error) {
	return t.codec.EncodeConfiguration(c)
}
func (t *memTransport) DecodeConfiguration(b []byte) (raft.Configuration, error) {
	return t.codec.DecodeConfiguration(b)
}

func (t *memTransport) up() bool { t.mu.Lock(); defer t.mu.Unlock(); return t.running }

func (t *memTransport) dest(addr string) (*memTransport, error) {
	if !t.up() {
		return nil, errNet
	}
	d, ok := t.net.plan(t.addr, addr)
	time.Sleep(d)
	dst := t.net.lookup(addr)
	if !ok || dst == nil || !dst.up() {
		return nil, errNet
	}
	return dst, nil
}

func copyEntries(in []*raft.LogEntry) []*raft.LogEntry {
	out := make([]*raft.LogEntry, len(in))
	for i, e := range in {
		out[i] = &raft.LogEntry{Index: e.Index, Term: e.Term, EntryType: e.EntryType, Data: append([]byte(nil), e.Data...)}
	}
	return out
}

func (t *memTransport) SendAppendEntries(addr string, req raft.AppendEntriesRequest) (raft.AppendEntriesResponse, error) {
	var resp raft.AppendEntriesResponse
	dst, err := t.dest(addr)
	if err != nil {
		return resp, err
	}
	req.Entries = copyEntries(req.Entries)
	dst.mu.Lock()
	h := dst.ae
	dst.mu.Unlock()
	if h == nil {
		return resp, errNet
	}
	if err := h(&req, &resp); err != nil {
		return resp, err
	}
	d, ok := t.net.plan(addr, t.addr)
	time.Sleep(d)
	if !ok {
		return raft.AppendEntriesResponse{}, errNet
	}
	return resp, nil
}

func (t *memTransport) SendRequestVote(addr string, req raft.RequestVoteRequest) (raft.RequestVoteResponse, error) {
	var resp raft.RequestVoteResponse
	dst, err := t.dest(addr)
	if err != nil {
		return resp, err
	}
	dst.mu.Lock()
	h := dst.rv
	dst.mu.Unlock()
	if h == nil {
		return resp, errNet
	}
	if err := h(&req, &resp); err != nil {
		return resp, err
	}
	d, ok := t.net.plan(addr, t.addr)
	time.Sleep(d)
	if !ok {
		return raft.RequestVoteResponse{}, errNet
	}
	return resp, nil
}

func (t *memTransport) SendInstallSnapshot(addr string, req raft.InstallSnapshotRequest) (raft.InstallSnapshotResponse, error) {
	var resp raft.InstallSnapshotResponse
	dst, err := t.dest(addr)
	if err != nil {
		return resp, err
	}
	req.Bytes = append([]byte(nil), req.Bytes...)
	req.Configuration = append([]byte(nil), req.Configuration...)
	dst.mu.Lock()
	h := dst.is
	dst.mu.Unlock()
	if h == nil {
		return resp, errNet
	}
	if err := h(&req, &resp); err != nil {
		return resp, err
	}
	d, ok := t.net.plan(addr, t.addr)
	time.Sleep(d)
	if !ok {
		return raft.InstallSnapshotResponse{}, errNet
	}
	return resp, nil
}

// ---------------------------------------------------------------- one seed = one bubble

type node struct {
	id, addr, dir string
	r             *raft.Raft
	tr            *memTransport
}

type seedStats struct {
	opsOK, opsFailed, leadersSeen, stops, partitions, confOK atomic.Int64
	voters, spares, threshold                                int
}

func runSeed(t *testing.T, seed int64, base string, st *seedStats) {
	rng := rand.New(rand.NewSource(seed))
	voters := 3 + 2*rng.Intn(2)
	spares := rng.Intn(2)
	election := time.Duration(50+rng.Intn(3)*50) * time.Millisecond
	heartbeat := election / time.Duration(4+rng.Intn(4))
	threshold := 0
	if rng.Intn(3) != 0 {
		threshold = 3 + rng.Intn(20)
	}
	st.voters, st.spares, st.threshold = voters, spares, threshold
	nw := &network{nodes: map[string]*memTransport{}, cut: map[string]bool{}, rng: rand.New(rand.NewSource(seed ^ 0x5eed)),
		dropPm: rng.Intn(3) * 30, maxDelay: time.Duration(1+rng.Intn(8)) * time.Millisecond}
	var nodes []*node
	members := map[string]string{}
	for i := 0; i < voters+spares; i++ {
		id := fmt.Sprintf("n%d", i+1)
		addr := fmt.Sprintf("127.0.0.1:%d", 9001+i)
		dir := filepath.Join(base, fmt.Sprintf("seed%d", seed), id)
		os.MkdirAll(dir, 0o755)
		codec, err := raft.NewTransport(addr)
		if err != nil {
			t.Fatalf("codec: %v", err)
		}
		tr := &memTransport{net: nw, addr: addr, codec: codec}
		nw.nodes[addr] = tr
		r, err := raft.NewRaft(id, addr, &sm{threshold: threshold, slow: heartbeat / 2}, dir,
			raft.WithTransport(tr), raft.WithElectionTimeout(election), raft.WithHeartbeatInterval(heartbeat),
			raft.WithLeaseDuration(election/3), raft.WithLogLevel(logging.Error))
		if err != nil {
			t.Fatalf("NewRaft: %v", err)
		}
		nodes = append(nodes, &node{id: id, addr: addr, dir: dir, r: r, tr: tr})
		if i < voters {
			members[id] = addr
		}
	}
	for i, n := range nodes {
		if i < voters {
			m := map[string]string{}
			for k, v := range members {
				m[k] = v
			}
			if err := n.r.Bootstrap(m); err != nil {
				t.Fatalf("Bootstrap: %v", err)
			}
		}
		if err := n.r.Start(); err != nil {
			t.Fatalf("Start: %v", err)
		}
	}
	duration := time.Duration(40+rng.Intn(60)) * election
	deadline := time.Now().Add(duration)
	var wg sync.WaitGroup
	// Clients: every public API from many goroutines.
	for c := 0; c < 6; c++ {
		crng := rand.New(rand.NewSource(seed*131 + int64(c)))
		wg.Add(1)
		go func() {
			defer wg.Done()
			for time.Now().Before(deadline) {
				time.Sleep(time.Duration(crng.Intn(int(election / 4))))
				n := nodes[crng.Intn(len(nodes))]
				switch crng.Intn(10) {
				case 0:
					s := n.r.Status()
					_ = s.State.String()
					if s.State == raft.Leader {
						st.leadersSeen.Add(1)
					}
				case 1:
					cf := n.r.Configuration()
					_ = cf.String()
				case 2, 3, 4, 5:
					f := n.r.SubmitOperation([]byte(fmt.Sprintf("op-%d-%d", c, crng.Int63())), raft.OperationType(crng.Intn(3)), election*time.Duration(1+crng.Intn(4)))
					if f.Await().Error() == nil {
						st.opsOK.Add(1)
					} else {
						st.opsFailed.Add(1)
					}
				case 6:
					if spares > 0 {
						s := nodes[voters+crng.Intn(spares)]
						f := n.r.AddServer(s.id, s.addr, crng.Intn(2) == 0, 2*election)
						if f.Await().Error() == nil {
							st.confOK.Add(1)
						}
					}
				case 7:
					if spares > 0 {
						s := nodes[voters+crng.Intn(spares)]
						f := n.r.RemoveServer(s.id, 2*election)
						f.Await()
					}
				default:
					f := n.r.SubmitOperation([]byte("w"), raft.Replicated, election)
					if f.Await().Error() == nil {
						st.opsOK.Add(1)
					} else {
						st.opsFailed.Add(1)
					}
				}
			}
		}()
	}
	// Faults: partitions and graceful stop/restart cycles.
	wg.Add(1)
	go func() {
		defer wg.Done()
		frng := rand.New(rand.NewSource(seed * 977))
		for time.Now().Before(deadline) {
			time.Sleep(time.Duration(frng.Intn(int(6 * election))))
			n := nodes[frng.Intn(len(nodes))]
			switch frng.Intn(3) {
			case 0:
				st.partitions.Add(1)
				nw.mu.Lock()
				for _, o := range nodes {
					if o != n {
						nw.cut[n.addr+">"+o.addr] = true
						nw.cut[o.addr+">"+n.addr] = true
					}
				}
				nw.mu.Unlock()
				time.Sleep(time.Duration(frng.Intn(int(4 * election))))
				nw.mu.Lock()
				nw.cut = map[string]bool{}
				nw.mu.Unlock()
			case 1:
				st.stops.Add(1)
				n.r.Stop()
				time.Sleep(time.Duration(frng.Intn(int(2 * election))))
				if err := n.r.Restart(); err != nil {
					t.Errorf("Restart: %v", err)
				}
			default:
			}
		}
	}()
	wg.Wait()
	for _, n := range nodes {
		n.r.Stop()
	}
}

func TestRace(t *testing.T) {
	base := *flagDir
	if base == "" {
		base = t.TempDir()
	}
	t0 := time.Now()
	done := 0
	for i := 0; i < *flagSeeds; i++ {
		if *flagBudget > 0 && time.Since(t0) > *flagBudget {
			break
		}
		seed := *flagSeed + int64(i)
		ok := true
		st := &seedStats{}
		func() {
			defer func() {
				if r := recover(); r != nil {
					ok = false
					t.Errorf("seed %d: bubble panicked: %v", seed, r)
				}
			}()
			synctest.Test(t, func(t *testing.T) { runSeed(t, seed, base, st) })
		}()
		os.RemoveAll(filepath.Join(base, fmt.Sprintf("seed%d", seed)))
		done++
		fmt.Printf("RACE-SEED-DONE seed=%d ok=%v voters=%d spares=%d snapshot_threshold=%d ops_ok=%d ops_failed=%d leader_sightings=%d stop_restart_cycles=%d partitions=%d membership_ok=%d\n",
			seed, ok, st.voters, st.spares, st.threshold, st.opsOK.Load(), st.opsFailed.Load(), st.leadersSeen.Load(), st.stops.Load(), st.partitions.Load(), st.confOK.Load())
	}
	fmt.Printf("RACE-SEEDS-RUN %d\n", done)
}
