module verifrace

go 1.25

require github.com/jmsadair/raft v0.0.0

replace github.com/jmsadair/raft => /verif/.build/dev/raft
