#!/bin/bash
# assemble.sh <scratch-dir> [race]
# Copies /repo's current working tree (non-test Go sources) to <scratch>/raft, injects the
# simulation runtime as <module>/xsim/..., runs the rewriter, and builds the worker binary
# <scratch>/worker against the rewritten copy. Exit 2 on any failure (infrastructure).
set -u
SCRATCH="$1"; MODE="${2:-strict}"
REPO="${VERIF_REPO:-/repo}"
VERIF="$(cd "$(dirname "$0")/.." && pwd)"
export GOFLAGS=-mod=mod GOPROXY=off GOSUMDB=off GOTOOLCHAIN=local GONOSUMDB=* GONOSUMCHECK=1 GOFLAGS=-mod=mod
fail() { echo "assemble: $*" >&2; exit 2; }
[ -d "$REPO" ] || fail "no repo at $REPO"
mkdir -p "$SCRATCH/raft" || fail "mkdir"
# 1. copy sources (working tree, not HEAD)
rsync -a --prune-empty-dirs --exclude='.git/' --exclude='*_test.go' --include='*/' \
   --include='*.go' --include='go.mod' --include='go.sum' --exclude='*' "$REPO/" "$SCRATCH/raft/" || fail "copy"
# 2. inject runtime
mkdir -p "$SCRATCH/raft/xsim" && cp -r "$VERIF/sim/rt/." "$SCRATCH/raft/xsim/" || fail "inject runtime"
# 3. rewrite
REWRITE="$VERIF/.build/rewrite"
if [ ! -x "$REWRITE" ] || [ -n "$(find "$VERIF/cmd/rewrite" -newer "$REWRITE" -name '*.go' 2>/dev/null)" ]; then
  mkdir -p "$VERIF/.build"
  (cd "$VERIF/cmd/rewrite" && go build -o "$REWRITE" .) || fail "build rewriter"
fi
RWFLAGS=""; [ "$MODE" = race ] && RWFLAGS="-race"
"$REWRITE" $RWFLAGS -dir "$SCRATCH/raft" || fail "rewrite failed"
# 4. harness module file pointing at the scratch copy
sed "s#__RAFT__#$SCRATCH/raft#" "$VERIF/sim/go.mod.tmpl" > "$SCRATCH/h.mod" || fail "modfile"
cat "$REPO/go.sum" "$VERIF/sim/go.sum.extra" > "$SCRATCH/h.sum" 2>/dev/null
# 5. build
if [ "$MODE" = race ]; then
  exit 0
fi
(cd "$VERIF/sim" && go build -modfile="$SCRATCH/h.mod" -o "$SCRATCH/worker" ./cmd/worker) || fail "build worker"
echo "assemble: ok -> $SCRATCH/worker"
