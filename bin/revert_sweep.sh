#!/bin/bash
# revert_sweep.sh — sensitivity self-test: for every `fix:` commit in /repo, build a scratch
# worktree of HEAD with that one commit reverted (the original defect re-introduced) and run the
# checks that are expected to notice. Results go to selftest/revert_sweep.tsv; the replays of the
# violations found are kept under replays/fixed/<commit>/. Evidence files are restored afterwards.
set -u
VERIF="$(cd "$(dirname "$0")/.." && pwd)"
BUDGET="${1:-40}"
shift || true
ONLY=" $* "   # optional: only these commits (their rows in the result file are replaced)
OUT="$VERIF/selftest/revert_sweep.tsv"
mkdir -p "$VERIF/selftest" "$VERIF/replays/fixed"
cp -r "$VERIF/evidence" /tmp/evidence.bak.$$ 2>/dev/null
if [ "$ONLY" = "  " ]; then : > "$OUT"; fi
while read -r commit props; do
  [ -z "$commit" ] && continue
  if [ "$ONLY" != "  " ]; then
    case "$ONLY" in *" $commit "*) grep -v "^$commit" "$OUT" > "$OUT.tmp"; mv "$OUT.tmp" "$OUT";; *) continue;; esac
  fi
  WT="/tmp/wt-$commit"
  git -C /repo worktree remove --force "$WT" 2>/dev/null
  git -C /repo worktree add -q --detach "$WT" HEAD || { echo -e "$commit\t-\tworktree-failed" >> "$OUT"; continue; }
  if ! git -C "$WT" revert --no-commit "$commit" >/dev/null 2>&1; then
    echo -e "$commit\t-\trevert-conflict" >> "$OUT"
    git -C /repo worktree remove --force "$WT"; continue
  fi
  (cd "$WT" && go build ./... ) >/dev/null 2>&1 || { echo -e "$commit\t-\tdoes-not-build" >> "$OUT"; git -C /repo worktree remove --force "$WT"; continue; }
  for p in $props; do
    before="$(ls "$VERIF/replays"/*.json 2>/dev/null | sort)"
    VERIF_REPO="$WT" "$VERIF/bin/check" "$p" quick --budget "$BUDGET" > "/tmp/sweep-$commit-$p.log" 2>&1
    rc=$?
    classes="$(grep '^violation class' "/tmp/sweep-$commit-$p.log" | sed 's/^violation class \([^ ]*\) .*/\1/' | tr '\n' ' ')"
    echo -e "$commit\t$p\texit=$rc\t$classes" >> "$OUT"
    mkdir -p "$VERIF/replays/fixed/$commit"
    for f in $(ls "$VERIF/replays"/*.json 2>/dev/null | sort); do
      echo "$before" | grep -qx "$f" || mv "$f" "$VERIF/replays/fixed/$commit/"
    done
  done
  git -C /repo worktree remove --force "$WT"
done <<'LIST'
3ed5af5 C12 C14
71cafa6 C13 C14
16309f1 C13
57d1890 C05 C17
2a4d3a7 C05
56682d1 C15
561f83f C18
b14ff00 C18
1d416ce C05
0b6b50e C15
0dc647a C08
4b9901c C09
04def8b C18
95dacf2 C15
1d6477d C18
a735b3c C16
2630c88 C14 C15
06fb5c5 C15
f69a6d3 C16
1381041 C18
d4a3bb1 C16
9d63e39 C14
47c1c52 C14 C15
72c542d C08 C02
9028362 C17
3e08cf1 C15
b50c212 C10
8cf1139 C15
37dc5fe C03
LIST
rm -rf "$VERIF/evidence"; cp -r /tmp/evidence.bak.$$ "$VERIF/evidence"; rm -rf /tmp/evidence.bak.$$
echo "revert sweep done: $OUT"
