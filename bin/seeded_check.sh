#!/bin/bash
# seeded_check.sh <ID> <worktree> <prop>... — runs the quick checks of the given properties
# against a seeded change (VERIF_REPO=<worktree>) and records the outcome in seeded/<ID>/meta.json.
# Evidence files are restored afterwards; replays go to replays/seeded/<ID>/.
set -u
ID="$1"; WT="$2"; shift 2
VERIF="$(cd "$(dirname "$0")/.." && pwd)"
for p in "$@"; do
  cp "$VERIF/evidence/$p.json" "/tmp/ev-$p-$$.json" 2>/dev/null
  before="$(ls "$VERIF/replays"/*.json 2>/dev/null | sort)"
  VERIF_REPO="$WT" "$VERIF/bin/check" "$p" quick ${BUDGET:+--budget $BUDGET} > "/tmp/seeded-$ID-$p.log" 2>&1
  rc=$?
  classes="$(grep -E '^(violation class|data race)' "/tmp/seeded-$ID-$p.log" | awk '{print $3}' | tr '\n' ' ')"
  mkdir -p "$VERIF/replays/seeded/$ID"
  for f in $(ls "$VERIF/replays"/*.json 2>/dev/null | sort); do
    echo "$before" | grep -qx "$f" || mv "$f" "$VERIF/replays/seeded/$ID/"
  done
  [ -f "/tmp/ev-$p-$$.json" ] && mv "/tmp/ev-$p-$$.json" "$VERIF/evidence/$p.json"
  python3 - "$VERIF/seeded/$ID/meta.json" "$p" "$rc" "$classes" <<'PY'
import json,sys
f,p,rc,classes=sys.argv[1:5]
try: m=json.load(open(f))
except Exception: m={"checks_run":[]}
m.setdefault("checks_run",[])
m["checks_run"]=[c for c in m["checks_run"] if c.get("check")!=p]
m["checks_run"].append({"check":p,"cmd":f"VERIF_REPO=<worktree with patch.diff applied> ./bin/check {p} quick","exit":int(rc),"verdict":"CAUGHT" if rc=="1" else ("missed" if rc=="0" else "infrastructure"),"classes":classes.split()})
json.dump(m,open(f,"w"),indent=1)
print(p, "exit", rc, classes)
PY
done
