#!/bin/bash
# Determinism self-test: for every cluster profile, N seeds are run in separate worker
# processes at GOMAXPROCS 1, 4 and 16 and once more with every seed executed twice inside one
# process; all event-log hashes must agree. Exit 2 (infrastructure) on any divergence.
set -u
VERIF="$(cd "$(dirname "$0")/.." && pwd)"
N="${1:-40}"
S="$(mktemp -d "${TMPDIR:-/tmp}/verif-det-XXXXXX")"
trap 'rm -rf "$S"' EXIT
"$VERIF/bin/assemble.sh" "$S" >/dev/null || exit 2
fail=0
for p in core election durability reads lease membership snapshot crashsweep liveness sticky api disk-C12 disk-C13; do
  ref=""
  for g in 1 4 16 twice; do
    if [ "$g" = twice ]; then
      out="$("$S/worker" -profile $p -seed 4242 -n "$N" -twice 2>&1)"
    else
      out="$(GOMAXPROCS=$g "$S/worker" -profile $p -seed 4242 -n "$N" 2>&1)"
    fi
    h="$(echo "$out" | python3 -c "
import sys,json
for l in sys.stdin:
    try: r=json.loads(l)
    except Exception: print('BAD',l[:100]); continue
    print(r['seed'],r['hash'],r['steps'],r.get('infra',''))" | md5sum | cut -c1-12)"
    if [ -z "$ref" ]; then ref="$h"; fi
    if [ "$h" != "$ref" ]; then echo "DIVERGENCE profile=$p variant=$g ($h vs $ref)"; fail=1; fi
  done
  echo "profile $p: $N seeds x 4 variants identical ($ref)"
done
[ $fail = 0 ] || { echo "determinism self-test FAILED" >&2; exit 2; }
echo "determinism self-test ok"
