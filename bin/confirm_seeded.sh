#!/bin/bash
# confirm_seeded.sh <ID> <worktree> — confirms a seeded change independently and files it under
# seeded/<ID>/: (1) the demonstration fails with the change and passes without it, (2) the
# unedited suite passes with the change (in a private network namespace: the cluster tests bind
# fixed addresses), then stores patch.diff, the demonstration and meta.json.
set -u
ID="$1"; WT="$2"
VERIF="$(cd "$(dirname "$0")/.." && pwd)"
export GOFLAGS=-mod=mod GOPROXY=off GOSUMDB=off GOTOOLCHAIN=local
cd "$WT" || exit 2
DEMO="$(ls zz_seeded_*_test.go 2>/dev/null | head -1)"
[ -n "$DEMO" ] || { echo "no demo"; exit 2; }
RUN="$(grep -o 'func TestSeeded[A-Z][0-9][0-9]' "$DEMO" | head -1 | sed 's/func //')"   # all TestSeeded<ID>* tests of the demo
RACE="${RACE:-}"
SRC="$(git diff --name-only | tr '\n' ' ')"
git diff -- $SRC > /tmp/seeded-$ID.diff
with="$(unshare -n sh -c "ip link set lo up; go test $RACE -vet=off -count=1 -run '$RUN' . 2>&1" | tail -1)"
git apply -R /tmp/seeded-$ID.diff   # (no git stash: the stash is shared between worktrees)
without="$(unshare -n sh -c "ip link set lo up; go test $RACE -vet=off -count=1 -run '$RUN' . 2>&1" | tail -1)"
git apply /tmp/seeded-$ID.diff
mv "$DEMO" /tmp/"$DEMO".aside
suite="$(unshare -n sh -c "ip link set lo up; go test -vet=off -count=1 -timeout 25m ./... 2>&1" | grep -E '^(ok|FAIL|---)' | tr '\n' ';')"
mv /tmp/"$DEMO".aside "$DEMO"
mkdir -p "$VERIF/seeded/$ID"
cp /tmp/seeded-$ID.diff "$VERIF/seeded/$ID/patch.diff"
cp "$DEMO" "$VERIF/seeded/$ID/"
cp seeded_meta.json "$VERIF/seeded/$ID/agent_meta.json" 2>/dev/null
python3 - "$ID" "$with" "$without" "$suite" "$DEMO" "$RUN" <<'PY'
import json,sys,os
ID,with_,without,suite,demo,run=sys.argv[1:7]
d=f"/verif/seeded/{ID}"
agent={}
try: agent=json.load(open(d+"/agent_meta.json"))
except Exception: pass
meta={"id":ID,"property":agent.get("property",ID.split("-")[0]),"summary":agent.get("summary",""),"needs_to_manifest":agent.get("needs_to_manifest",""),
 "demo":f"{demo} ({run}); go test -vet=off -count=1 -run {run} .",
 "confirmed":{"demo_with_change":with_,"demo_without_change":without,"suite_with_change":suite},
 "checks_run":[]}
try:
    old=json.load(open(d+"/meta.json"))
    meta["checks_run"]=old.get("checks_run",[])
except Exception: pass
json.dump(meta,open(d+"/meta.json","w"),indent=1)
print(json.dumps(meta["confirmed"],indent=1))
PY
