#!/bin/bash
# seeded_run.sh <ID> <prop>... — applies seeded/<ID>/patch.diff to a fresh scratch worktree of
# /repo HEAD (outside /repo and /verif), runs the quick checks of the given properties against it
# (bin/seeded_check.sh) and removes the worktree again. BUDGET=<s> overrides the quick budget.
set -u
ID="$1"; shift
VERIF="$(cd "$(dirname "$0")/.." && pwd)"
WT="/tmp/sw-$ID-$$"
git -C /repo worktree add -q --detach "$WT" HEAD || exit 2
trap 'git -C /repo worktree remove --force "$WT" >/dev/null 2>&1' EXIT
git -C "$WT" apply "$VERIF/seeded/$ID/patch.diff" || { echo "$ID: patch does not apply to HEAD"; exit 2; }
"$VERIF/bin/seeded_check.sh" "$ID" "$WT" "$@"
