#!/bin/bash
# Builds the framework from files on disk only (offline) and warms the Go build cache.
set -u
VERIF="$(cd "$(dirname "$0")/.." && pwd)"
export GOFLAGS=-mod=mod GOPROXY=off GOSUMDB=off GOTOOLCHAIN=local
mkdir -p "$VERIF/.build"
(cd "$VERIF/cmd/rewrite" && go build -o "$VERIF/.build/rewrite" .) || { echo "setup: cannot build the rewriter" >&2; exit 2; }
(cd "$VERIF/cmd/simcheck" && go build -o "$VERIF/.build/simcheck" .) || { echo "setup: cannot build simcheck" >&2; exit 2; }
# One full assembly: compiles grpc/protobuf once so that every check starts from a warm cache.
S="$(mktemp -d "${TMPDIR:-/tmp}/verif-setup-XXXXXX")"
"$VERIF/bin/assemble.sh" "$S" || { rm -rf "$S"; echo "setup: assembly failed" >&2; exit 2; }
# Determinism smoke test: the same seeds twice in one process and once more in another.
A="$("$S/worker" -profile core -seed 7 -n 10 -twice | md5sum)"
B="$(GOMAXPROCS=2 "$S/worker" -profile core -seed 7 -n 10 | md5sum)"
rm -rf "$S"
[ "$A" = "$B" ] || { echo "setup: determinism smoke test failed" >&2; exit 2; }
echo "setup: ok"
