// Command simcheck is the entry point of every check registered in MANIFEST.json.
//
//	simcheck <property> [--tier quick|thorough] [--budget seconds] [--workers n]
//	simcheck replay <file>
//	simcheck selftest
//
// It copies /repo's current working tree to a scratch directory, rewrites it
// (cmd/rewrite), builds the simulation worker against it, runs seeded batches in
// parallel worker processes, minimises and replays any violation, and writes
// evidence/<property>.json. Exit codes: 0 held, 1 VIOLATION, 2 infrastructure.
package main

import (
	"bufio"
	"encoding/json"
	"fmt"
	"os"
	"os/exec"
	"path/filepath"
	"runtime"
	"sort"
	"strconv"
	"strings"
	"sync"
	"time"
)

var verifDir string

func infra(format string, args ...interface{}) {
	fmt.Fprintf(os.Stderr, "simcheck: INFRASTRUCTURE: "+format+"\n", args...)
	os.Exit(2)
}

// ---------------------------------------------------------------- spec table

type spec struct {
	ID        string
	Profiles  []string // worker profiles (cluster engine) or disk programs
	Engine    string   // "cluster" | "disk" | "race"
	Accept    []string // violation properties that count for this check
	Level     string
	Rule      string
	Assume    []string
	Probes    []string // probes that must fire for the batch to be meaningful (reported as not reached otherwise)
	QuickS    float64
	ThoroughS float64
}

var commonAssume = []string{
	"the scratch-copy rewrite (cmd/rewrite) preserves the semantics of sync/time/os/go/select/map-range under sequential consistency; all protocol state is guarded by the node mutex (C20 checks that separately)",
	"the gRPC transport is replaced by the simulated network (sim/harness/net.go); requests carry exactly the fields of the real wire format",
	"process-crash model: every completed storage call survives, an in-flight write may leave any byte prefix; directory operations are atomic and durable",
	"sampling, not enumeration: a clean batch is evidence, not proof",
}

var specs = map[string]*spec{
	"C01": {ID: "C01", Profiles: []string{"core"}, Engine: "cluster", Accept: []string{"C01"}, Level: "exploration",
		Rule:   "one run = one seeded cluster simulation (config, fault plan and schedule from the seed). Non-trivial: the run applied >= 1 replicated operation and >= 1 fault fired. Distinct: distinct event-log hashes among those.",
		Probes: []string{"leader-elected", "log-truncated", "reopen-saw-inflight-append"}},
	"C02": {ID: "C02", Profiles: []string{"election"}, Engine: "cluster", Accept: []string{"C02"}, Level: "exploration",
		Rule:   "one run = one seeded cluster simulation of the election profile (close timers, stalls, vote-write crashes, non-voters added right after the first election). Non-trivial: >= 2 leaders elected and >= 1 fault fired. Distinct: distinct event-log hashes among those.",
		Probes: []string{"leader-elected", "vote-granted", "nonvoter-added", "elected-with-bare-majority-even"}},
	"C03": {ID: "C03", Profiles: []string{"core"}, Engine: "cluster", Accept: []string{"C03"}, Level: "exploration",
		Rule: "one run = one seeded cluster simulation with concurrent clients on any node; the recorded history is checked exactly against the applied sequence. Non-trivial: >= 5 acknowledged operations and >= 1 fault fired. Distinct: distinct event-log hashes among those."},
	"C04": {ID: "C04", Profiles: []string{"durability"}, Engine: "cluster", Accept: []string{"C04"}, Level: "exploration",
		Rule:   "one run = one seeded cluster simulation with crashes at storage-operation boundaries, torn writes, optional loss of un-synced data; at acknowledgements the durable log images are decoded with the repository's reader. Non-trivial: >= 1 acknowledged operation and >= 1 crash. Distinct: distinct event-log hashes among those.",
		Probes: []string{"acked-with-bare-majority-even", "heal-restarted-bare-majority", "reopen-saw-inflight-append"}},
	"C05": {ID: "C05", Profiles: []string{"reads"}, Engine: "cluster", Accept: []string{"C05"}, Level: "exploration",
		Rule:   "one run = one seeded cluster simulation with linearizable reads at every node, heavy-tailed reply delays, clock skew, leader isolation (alone or with the non-voters). Non-trivial: >= 1 successful linearizable read and >= 2 leaders elected. Distinct: distinct event-log hashes among those.",
		Probes: []string{"nonvoter-added", "fault-aimed-at-leader"}},
	"C06": {ID: "C06", Profiles: []string{"core", "election", "snapshot"}, Engine: "cluster", Accept: []string{"C06"}, Level: "exploration",
		Rule:   "one run = one seeded cluster simulation; every handled AppendEntries request (incl. duplicated and stale re-delivered ones) is checked against the log-wrapper calls it made, and logs are compared pairwise after every append. Non-trivial: >= 1 follower truncation or stale re-delivery happened. Distinct: distinct event-log hashes among those.",
		Probes: []string{"ae-truncated-follower", "ae-accepted-with-entries"}},
	"C07": {ID: "C07", Profiles: []string{"core", "election", "snapshot"}, Engine: "cluster", Accept: []string{"C07"}, Level: "exploration",
		Rule: "one run = one seeded cluster simulation (one third of the runs with snapshots and log compaction on, so that voters and candidates answer from a compacted log); at the first sample showing a node as leader of a term its log must hold every committed entry. Non-trivial: >= 2 leaders elected with >= 1 committed entry. Distinct: distinct event-log hashes among those."},
	"C08": {ID: "C08", Profiles: []string{"election", "durability", "election", "snapshot"}, Engine: "cluster", Accept: []string{"C08"}, Level: "exploration",
		Rule:   "one run = one seeded cluster simulation; per node across incarnations: terms in replies/status/reloads never decrease, one candidate per term (grants and persisted votes), votes only for up-to-date logs, prevotes inert. Non-trivial: >= 1 real vote granted and >= 1 crash. Distinct: distinct event-log hashes among those.",
		Probes: []string{"vote-granted", "prevote-granted"}},
	"C09": {ID: "C09", Profiles: []string{"membership"}, Engine: "cluster", Accept: []string{"C09"}, Level: "exploration",
		Rule:   "one run = one seeded cluster simulation starting from 1-4 voters with a membership client issuing add-non-voter / add-voter / promote / remove (incl. the leader) back-to-back, to any node, without waiting, under partitions and crashes. Non-trivial: >= 2 configuration entries committed and >= 1 fault fired. Distinct: distinct event-log hashes among those.",
		Probes: []string{"config-entry-committed", "commit-quorum-checked", "membership-change-applied-by-its-leader", "leader-elected"}},
	"C12": {ID: "C12", Profiles: []string{"disk-C12"}, Engine: "disk", Accept: []string{"C12"}, Level: "fault_enumeration",
		Rule: "one program = a seeded sequence (1-12 calls, longer in thorough) of append / append-batch / truncate / compact / discard / close+reopen on the repository's file-backed log over the simulated disk. For every program the crash points are enumerated completely: before every storage operation, after the last, and inside every write (quick: header bytes + sampled offsets; thorough: every byte of every write up to 2 KiB, for larger writes every byte of the first and last 64 plus a stride of 1/128 of the write). evaluations = crash points executed (each one a fresh execution of the program, a crash, a reopen with the repository's code and a comparison with the model through the public API; a third of them continue with more operations and a second crash). distinct_nontrivial = distinct disk images at the crash instant, per program."},
	"C13": {ID: "C13", Profiles: []string{"disk-C13"}, Engine: "disk", Accept: []string{"C13"}, Level: "fault_enumeration",
		Rule: "one program = a seeded sequence of SetState / NewSnapshotFile + writes (0 B to beyond one transfer chunk) + Close|Discard / SnapshotFile / reopen (up to 40 snapshots) on the repository's term/vote and snapshot storages over the simulated disk. Crash points as for C12. After every crash: storages and NewRaft must be constructible at the first attempt, State() = last returned or in-flight value, SnapshotFile() = most recent successfully closed snapshot, complete. evaluations = crash points executed; distinct_nontrivial = distinct disk images at the crash instant, per program."},
	"C16": {ID: "C16", Profiles: []string{"sticky"}, Engine: "cluster", Accept: []string{"C16"}, Level: "exploration",
		Rule:   "one run = one seeded simulation: wait for a stable leader, fix a prompt majority around it, then isolate (symmetric / one-directional, any duration), rejoin, crash/restart, stall and speed up the clocks of the remaining nodes for 60-240 election timeouts. Non-trivial: >= 1 vote request from the tormented minority was handled by a majority node during the window. Distinct: distinct event-log hashes among those.",
		Probes: []string{"window-established", "window-rejoins", "window-minority-restarts", "window-vote-requests-reached-majority", "window-real-vote-requests-reached-majority"}},
	"C17": {ID: "C17", Profiles: []string{"lease"}, Engine: "cluster", Accept: []string{"C17"}, Level: "exploration",
		Rule:   "one run = one seeded cluster simulation with lease reads at every node; lease L, message delay bound D and election timeout E drawn with L + D < E, clocks at rate 1 without steps, no stalls; partitions and leader changes. Non-trivial: >= 1 successful lease read and >= 2 leaders elected. Distinct: distinct event-log hashes among those.",
		Probes: []string{"nonvoter-added", "fault-aimed-at-leader", "lease-read-checked-against-voter-reply"}},
	"C18": {ID: "C18", Profiles: []string{"api", "membership"}, Engine: "cluster", Accept: []string{"C18"}, Level: "exploration",
		Rule:   "one run = one seeded cluster simulation with an API fuzzer task per node (status/configuration rendering, submissions of every and of invalid operation types, empty payloads, zero/huge timeouts, membership requests with existing/unknown/own ids, Bootstrap again, Start/Restart on a running node, Stop+Restart, Stop+Start, Stop twice) in whatever state the node is in; the membership profile contributes the membership-future obligation. Non-trivial: >= 10 API calls were made. Distinct: distinct event-log hashes among those.",
		Probes: []string{"api-calls", "api-in-state-0", "api-in-state-1", "api-in-state-2", "api-in-state-3", "api-in-state-4", "graceful-restart", "membership-change-applied-by-its-leader"}},
	"C20": {ID: "C20", Engine: "race", Accept: []string{"C20"}, Level: "exploration"},
	"C10": {ID: "C10", Profiles: []string{"snapshot", "snapshot", "crashsweep"}, Engine: "cluster", Accept: []string{"C10"}, Level: "exploration",
		Rule:   "one run = one seeded cluster simulation with snapshots on, slow state machine, lagging followers. Non-trivial: >= 1 snapshot became visible. Distinct: distinct event-log hashes among those.",
		Probes: []string{"snapshot-visible", "snapshot-installed", "snapshot-during-apply", "snapshot-larger-than-chunk", "restore-during-apply"}},
	"C11": {ID: "C11", Profiles: []string{"snapshot", "snapshot", "crashsweep"}, Engine: "cluster", Accept: []string{"C11"}, Level: "exploration",
		Rule:   "one run = one seeded cluster simulation with snapshots on plus duplicated / stale re-delivered InstallSnapshot requests. Non-trivial: >= 1 snapshot installed on a follower. Distinct: distinct event-log hashes among those.",
		Probes: []string{"snapshot-installed", "log-discarded", "log-compacted", "partial-snapshot-discarded", "installsnapshot-second-chunk"}},
	"C14": {ID: "C14", Profiles: []string{"crashsweep"}, Engine: "cluster", Accept: []string{"C14"}, Level: "exploration",
		Rule: "one run = one seeded cluster simulation with snapshots on and crashes immediately before/after/inside the k-th storage operation of a node. Non-trivial: >= 1 crash at a storage operation followed by a restart. Distinct: distinct event-log hashes among those."},
	"C15": {ID: "C15", Profiles: []string{"liveness", "core", "membership", "reads", "election", "crashsweep", "liveness", "election"}, Engine: "cluster", Accept: []string{"C15"}, Level: "exploration",
		Rule:   "one run = one seeded faulty cluster simulation followed by a fault-free phase of 60 election timeouts. Non-trivial: >= 1 fault fired before the heal phase. Distinct: distinct event-log hashes among those.",
		Probes: []string{"heal-converged", "heal-restarted-bare-majority"}},
}

func init() {
	for _, s := range specs {
		if s.QuickS == 0 {
			s.QuickS = 30
			if s.Engine == "cluster" {
				// (30 s was enough for most seeded changes, but three of them fell just outside the
				// first ~7 000 seeds after the generator grew more fault kinds: 60 s.)
				s.QuickS = 60
			}
		}
		if s.ThoroughS == 0 {
			s.ThoroughS = 600
		}
		s.Assume = append(s.Assume, commonAssume...)
	}
}

var overrideProfile string

// ---------------------------------------------------------------- worker output

type violation struct {
	Property string `json:"property"`
	Kind     string `json:"kind"`
	Cause    string `json:"cause"`
	Detail   string `json:"detail"`
	Seq      uint64 `json:"seq"`
	TimeMs   int64  `json:"time_ms"`
}

func (v violation) class() string { return v.Property + "/" + v.Kind + "/" + v.Cause }

type runResult struct {
	Seed       uint64                     `json:"seed"`
	Profile    string                     `json:"profile"`
	Hash       string                     `json:"hash"`
	Violations []violation                `json:"violations"`
	Infra      string                     `json:"infra"`
	Steps      uint64                     `json:"steps"`
	VirtualMs  int64                      `json:"virtual_ms"`
	Truncated  bool                       `json:"truncated"`
	Discarded  string                     `json:"discarded"`
	Committed  int                        `json:"committed"`
	OpsApplied int                        `json:"ops_applied"`
	Faults     int64                      `json:"faults"`
	NStates    int                        `json:"n_states"`
	StateList  []uint64                   `json:"state_list"`
	Stats      map[string]json.RawMessage `json:"stats"`
	Net        map[string]json.RawMessage `json:"net"`
	Probes     map[string]int64           `json:"probes"`
	Disk       map[string]int64           `json:"disk"`
	Trace      []string                   `json:"trace"`
	PlanLen    int                        `json:"plan_len"`
	Voters     int                        `json:"voters"`
	Nontrivial bool                       `json:"nontrivial"`
	Sample     json.RawMessage            `json:"sample"`
}

// ---------------------------------------------------------------- build

type build struct {
	dir    string
	worker string
}

func assemble(mode string) *build {
	base := os.Getenv("VERIF_SCRATCH")
	if base == "" {
		base = os.TempDir()
	}
	dir, err := os.MkdirTemp(base, "verif-build-")
	if err != nil {
		infra("scratch dir: %v", err)
	}
	cmd := exec.Command(filepath.Join(verifDir, "bin", "assemble.sh"), dir, mode)
	cmd.Stderr = os.Stderr
	out, err := cmd.Output()
	if err != nil {
		os.RemoveAll(dir)
		infra("assemble failed: %v\n%s", err, out)
	}
	return &build{dir: dir, worker: filepath.Join(dir, "worker")}
}

func (b *build) cleanup() {
	if os.Getenv("VERIF_KEEP") != "" {
		return
	}
	if b != nil && b.dir != "" {
		os.RemoveAll(b.dir)
	}
}

// ---------------------------------------------------------------- batch

type aggregate struct {
	mu         sync.Mutex
	runs       int
	nontrivial map[string]struct{}
	allHashes  map[string]struct{}
	states     map[uint64]struct{}
	steps      uint64
	virtualMs  int64
	opsApplied int64
	probes     map[string]int64
	faults     map[string]int64
	byProfile  map[string]int
	byVoters   map[int]int
	discarded  map[string]int
	truncated  int
	viol       map[string][]found // class -> occurrences
	other      map[string]int     // violations of other properties (informational)
	samples    []json.RawMessage
	infra      string
}

type found struct {
	Seed    uint64
	Profile string
	V       violation
}

func newAggregate() *aggregate {
	return &aggregate{
		nontrivial: map[string]struct{}{}, allHashes: map[string]struct{}{}, states: map[uint64]struct{}{},
		probes: map[string]int64{}, faults: map[string]int64{}, byProfile: map[string]int{}, byVoters: map[int]int{},
		discarded: map[string]int{}, viol: map[string][]found{}, other: map[string]int{},
	}
}

func num(m map[string]json.RawMessage, k string) int64 {
	var v int64
	if raw, ok := m[k]; ok {
		json.Unmarshal(raw, &v)
	}
	return v
}

func (a *aggregate) add(sp *spec, r *runResult) {
	a.mu.Lock()
	defer a.mu.Unlock()
	if r.Infra != "" {
		if a.infra == "" {
			a.infra = fmt.Sprintf("seed %d: %s", r.Seed, r.Infra)
		}
		return
	}
	a.runs++
	a.steps += r.Steps
	a.virtualMs += r.VirtualMs
	a.opsApplied += int64(r.OpsApplied)
	a.byProfile[r.Profile]++
	a.byVoters[r.Voters]++
	a.allHashes[r.Hash] = struct{}{}
	if r.Truncated {
		a.truncated++
	}
	if r.Discarded != "" {
		a.discarded[r.Discarded]++
	}
	for k, v := range r.Probes {
		a.probes[k] += v
	}
	for _, h := range r.StateList {
		a.states[h] = struct{}{}
	}
	for _, k := range []string{"Crashes", "Restarts", "Partitions", "Heals", "ClockJumps", "Stalls", "CrashAtOp", "CrashAtOpKind", "CrashNow", "DiskErrors", "StopStarts", "Redeliveries", "LinkFlaps", "SlowLinks", "LostUnsyncedFiles", "RestartFailures", "MembershipCalls"} {
		if v := num(r.Stats, k); v != 0 {
			a.faults[k] += v
		}
	}
	if raw, ok := r.Stats["CrashKinds"]; ok {
		var m map[string]int64
		json.Unmarshal(raw, &m)
		for k, v := range m {
			a.faults["crash:"+k] += v
		}
	}
	for _, k := range []string{"LossyDropped", "SlowLink", "DroppedReq", "DroppedReply", "Duplicated", "Redelivered", "BlockedReq", "BlockedReply", "PeerDown", "HeavyTail", "Sent", "Delivered"} {
		if v := num(r.Net, k); v != 0 {
			a.faults["net:"+k] += v
		}
	}
	if nontrivial(sp, r) {
		a.nontrivial[r.Hash] = struct{}{}
		if len(a.samples) < 3 && len(r.Sample) > 0 {
			a.samples = append(a.samples, r.Sample)
		}
	}
	for _, v := range r.Violations {
		ok := false
		for _, p := range sp.Accept {
			if v.Property == p {
				ok = true
			}
		}
		if !ok {
			a.other[v.class()]++
			continue
		}
		c := v.class()
		if len(a.viol[c]) < 50 {
			a.viol[c] = append(a.viol[c], found{Seed: r.Seed, Profile: r.Profile, V: v})
		}
	}
}

func nontrivial(sp *spec, r *runResult) bool {
	p := r.Probes
	crashes := num(r.Stats, "Crashes")
	switch sp.ID {
	case "C02":
		return p["leader-elected"] >= 2 && r.Faults >= 1
	case "C03":
		return num(r.Stats, "OpsOK") >= 5 && r.Faults >= 1
	case "C04":
		return num(r.Stats, "WritesOK") >= 1 && crashes >= 1
	case "C05":
		return num(r.Stats, "LinReadsOK") >= 1 && p["leader-elected"] >= 2
	case "C06":
		return p["ae-truncated-follower"] >= 1 || num(r.Net, "Redelivered") >= 1 || num(r.Net, "Duplicated") >= 1
	case "C07":
		return p["leader-elected"] >= 2 && r.Committed >= 1
	case "C08":
		return p["vote-granted"] >= 1 && crashes >= 1
	case "C10":
		return p["snapshot-visible"] >= 1
	case "C11":
		return p["snapshot-installed"] >= 1
	case "C14":
		return num(r.Stats, "CrashAtOp") >= 1 && num(r.Stats, "Restarts") >= 1
	case "C16":
		return p["window-vote-requests-reached-majority"] >= 1
	case "C17":
		return num(r.Stats, "LeaseReadsOK") >= 1 && p["leader-elected"] >= 2
	case "C09":
		return p["config-entry-committed"] >= 2 && r.Faults >= 1
	case "C18":
		return p["api-calls"] >= 10 || p["membership-change-applied-by-its-leader"] >= 1
	case "C12", "C13":
		return p["crash-points"] >= 1
	}
	return r.OpsApplied >= 1 && r.Faults >= 1
}

// runBatch runs workers until the wall budget is used up.
func runBatch(b *build, sp *spec, tier string, baseSeed uint64, budget float64, workers int, agg *aggregate) {
	var wg sync.WaitGroup
	nprof := len(sp.Profiles)
	for w := 0; w < workers; w++ {
		wg.Add(1)
		go func(w int) {
			defer wg.Done()
			// The profile of a seed depends on the seed alone (not on the number of workers): the
			// workers together explore the contiguous range of seeds from the base upwards.
			profile := strings.Join(sp.Profiles, ",")
			_ = nprof
			args := []string{"-profiles", profile, "-base", strconv.FormatUint(baseSeed, 10), "-seed", strconv.FormatUint(baseSeed+uint64(w), 10), "-stride", strconv.Itoa(workers),
				"-n", "100000000", "-budget", fmt.Sprintf("%.1f", budget), "-states"}
			if tier == "thorough" {
				args = append(args, "-thorough")
			}
			cmd := exec.Command(b.worker, args...)
			cmd.Stderr = os.Stderr
			out, err := cmd.StdoutPipe()
			if err != nil {
				infra("pipe: %v", err)
			}
			if err := cmd.Start(); err != nil {
				infra("start worker: %v", err)
			}
			sc := bufio.NewScanner(out)
			sc.Buffer(make([]byte, 1<<20), 1<<28)
			for sc.Scan() {
				var r runResult
				if err := json.Unmarshal(sc.Bytes(), &r); err != nil {
					agg.mu.Lock()
					if agg.infra == "" {
						agg.infra = fmt.Sprintf("worker %d: bad output line: %v", w, err)
					}
					agg.mu.Unlock()
					continue
				}
				agg.add(sp, &r)
			}
			if err := cmd.Wait(); err != nil {
				agg.mu.Lock()
				if agg.infra == "" {
					agg.infra = fmt.Sprintf("worker %d (%s) failed: %v", w, profile, err)
				}
				agg.mu.Unlock()
			}
		}(w)
	}
	wg.Wait()
}

// ---------------------------------------------------------------- known findings

type finding struct {
	ID          string `json:"id"`
	Status      string `json:"status"` // open | fixed
	Property    string `json:"property"`
	Kind        string `json:"kind"`
	CausePrefix string `json:"cause_prefix"`
	CauseHas    string `json:"cause_has,omitempty"`
	What        string `json:"what"`
	Replay      string `json:"replay,omitempty"`
	Commit      string `json:"commit,omitempty"`
}

type findingsFile struct {
	Findings []finding `json:"findings"`
	Fixed    []string  `json:"fixed"`
}

func loadFindings() []finding {
	data, err := os.ReadFile(filepath.Join(verifDir, "known_findings.json"))
	if err != nil {
		return nil
	}
	var ff findingsFile
	if err := json.Unmarshal(data, &ff); err != nil {
		infra("known_findings.json: %v", err)
	}
	return ff.Findings
}

func matchFinding(fs []finding, v violation) *finding {
	for i := range fs {
		f := &fs[i]
		if f.Status != "open" {
			continue
		}
		if f.Property == v.Property && f.Kind == v.Kind && strings.HasPrefix(v.Cause, f.CausePrefix) && strings.Contains(v.Cause, f.CauseHas) {
			return f
		}
	}
	return nil
}

// ---------------------------------------------------------------- replay / minimise

type replayFile struct {
	Property  string          `json:"property"`
	Profile   string          `json:"profile"`
	Seed      uint64          `json:"seed"`
	Config    json.RawMessage `json:"config"`
	Plan      json.RawMessage `json:"plan"`
	Violation *violation      `json:"violation"`
	Hash      string          `json:"hash"`
	Note      string          `json:"note,omitempty"`
	Trials    int             `json:"minimisation_trials,omitempty"`
	Tail      []string        `json:"event_log_tail,omitempty"`
}

func runWorkerJSON(b *build, args ...string) (*runResult, error) {
	cmd := exec.Command(b.worker, args...)
	cmd.Stderr = os.Stderr
	out, err := cmd.Output()
	if len(out) == 0 {
		return nil, fmt.Errorf("worker produced no output: %v", err)
	}
	var r runResult
	line := out
	if i := strings.IndexByte(string(out), '\n'); i >= 0 {
		line = out[:i]
	}
	if e := json.Unmarshal(line, &r); e != nil {
		return nil, fmt.Errorf("bad worker output: %v", e)
	}
	return &r, nil
}

func hasClass(r *runResult, class string) *violation {
	for i := range r.Violations {
		if r.Violations[i].class() == class {
			return &r.Violations[i]
		}
	}
	return nil
}

// minimise shrinks (config, plan) while the same violation class recurs.
func minimise(b *build, prop string, f found, maxTrials int, maxWall time.Duration) *replayFile {
	class := f.V.class()
	// Get the generated config and plan.
	gen, err := exec.Command(b.worker, "-profile", f.Profile, "-seed", strconv.FormatUint(f.Seed, 10), "-dump").Output()
	if err != nil {
		infra("dump config: %v", err)
	}
	var cur struct {
		Config map[string]interface{}   `json:"config"`
		Plan   []map[string]interface{} `json:"plan"`
	}
	dec := json.NewDecoder(strings.NewReader(string(gen)))
	dec.UseNumber()
	if err := dec.Decode(&cur); err != nil {
		infra("dump config decode: %v", err)
	}
	tmp := filepath.Join(b.dir, "trial.json")
	trials := 0
	t0 := time.Now()
	try := func(cfg map[string]interface{}, plan []map[string]interface{}) (*runResult, *violation) {
		trials++
		if plan == nil {
			plan = []map[string]interface{}{}
		}
		data, _ := json.Marshal(map[string]interface{}{"property": prop, "profile": f.Profile, "seed": f.Seed, "config": cfg, "plan": plan})
		os.WriteFile(tmp, data, 0o644)
		r, err := runWorkerJSON(b, "-replay", tmp)
		if err != nil || r.Infra != "" {
			return nil, nil
		}
		return r, hasClass(r, class)
	}
	base, bv := try(cur.Config, cur.Plan)
	if bv == nil {
		infra("violation %s of seed %d did not reproduce from its dumped config/plan (nondeterminism?)", class, f.Seed)
	}
	best, bestV := base, bv
	within := func() bool { return trials < maxTrials && time.Since(t0) < maxWall }
	clone := func(m map[string]interface{}) map[string]interface{} {
		c := map[string]interface{}{}
		for k, v := range m {
			c[k] = v
		}
		return c
	}
	// 1. Shorten the run to just after the violation.
	if within() {
		c := clone(cur.Config)
		cutMs := bv.TimeMs + 1
		if fm, ok := c["fault_ms"].(json.Number); ok {
			if v, _ := fm.Int64(); cutMs < v {
				c["fault_ms"] = cutMs
				c["no_heal"] = true
				if r, v := try(c, cur.Plan); v != nil {
					cur.Config, best, bestV = c, r, v
				}
			}
		}
	}
	// 2. ddmin over plan steps.
	n := 2
	for len(cur.Plan) > 0 && within() {
		chunk := (len(cur.Plan) + n - 1) / n
		reduced := false
		for i := 0; i < len(cur.Plan) && within(); i += chunk {
			end := i + chunk
			if end > len(cur.Plan) {
				end = len(cur.Plan)
			}
			cand := append(append([]map[string]interface{}{}, cur.Plan[:i]...), cur.Plan[end:]...)
			if r, v := try(cur.Config, cand); v != nil {
				cur.Plan, best, bestV = cand, r, v
				reduced = true
				if n > 2 {
					n--
				}
				break
			}
		}
		if !reduced {
			if chunk == 1 {
				break
			}
			n *= 2
			if n > len(cur.Plan) {
				n = len(cur.Plan)
			}
		}
	}
	// 3. Switch whole fault kinds / noise sources off.
	for _, k := range []string{"lost_unsynced", "redeliver_pm", "dup_pm", "reply_loss_pm", "drop_pm", "heavy_tail_pm", "sync_latency_us", "apply_delay_us", "snap_delay_us", "restore_delay_us", "disk_yield", "auto_restart_ms", "filler_bytes", "non_voters", "api_fuzz"} {
		if !within() {
			break
		}
		old, ok := cur.Config[k]
		if !ok {
			continue
		}
		c := clone(cur.Config)
		switch old.(type) {
		case bool:
			if old == false {
				continue
			}
			c[k] = false
		default:
			if fmt.Sprint(old) == "0" {
				continue
			}
			c[k] = 0
		}
		if r, v := try(c, cur.Plan); v != nil {
			cur.Config, best, bestV = c, r, v
		}
	}
	// 4. Fewer clients / operations.
	for _, k := range []string{"clients", "max_ops"} {
		for within() {
			old, _ := cur.Config[k].(json.Number)
			v, _ := old.Int64()
			if v <= 1 {
				break
			}
			c := clone(cur.Config)
			c[k] = v / 2
			if r, vv := try(c, cur.Plan); vv != nil {
				cur.Config, best, bestV = c, r, vv
			} else {
				break
			}
		}
	}
	// Final: trace of the minimised run.
	cfgRaw, _ := json.Marshal(cur.Config)
	if cur.Plan == nil {
		cur.Plan = []map[string]interface{}{}
	}
	planRaw, _ := json.Marshal(cur.Plan)
	rf := &replayFile{Property: prop, Profile: f.Profile, Seed: f.Seed, Config: cfgRaw, Plan: planRaw, Violation: bestV, Hash: best.Hash, Trials: trials}
	data, _ := json.Marshal(rf)
	os.WriteFile(tmp, data, 0o644)
	if r, err := runWorkerJSON(b, "-replay", tmp, "-trace"); err == nil {
		if r.Hash != best.Hash {
			os.WriteFile("/tmp/nondet-trial.json", data, 0o644)
			infra("replay of the minimised run gave hash %s, expected %s (nondeterminism)", r.Hash, best.Hash)
		}
		// Keep the events leading to the violation.
		end := len(r.Trace)
		for i, l := range r.Trace {
			if strings.Contains(l, "VIOLATION "+bestV.Property+" "+bestV.Kind) {
				end = i + 1
				break
			}
		}
		start := end - 80
		if start < 0 {
			start = 0
		}
		rf.Tail = r.Trace[start:end]
	}
	return rf
}

func writeReplay(rf *replayFile) string {
	dir := filepath.Join(verifDir, "replays")
	os.MkdirAll(dir, 0o755)
	name := fmt.Sprintf("%s-%s-%d-%s.json", rf.Property, sanitize(rf.Violation.Kind), rf.Seed, rf.Hash[:8])
	p := filepath.Join(dir, name)
	data, _ := json.MarshalIndent(rf, "", " ")
	if err := os.WriteFile(p, data, 0o644); err != nil {
		infra("write replay: %v", err)
	}
	return p
}

func sanitize(s string) string {
	return strings.Map(func(r rune) rune {
		if (r >= 'a' && r <= 'z') || (r >= 'A' && r <= 'Z') || (r >= '0' && r <= '9') || r == '-' {
			return r
		}
		return '_'
	}, s)
}

// replayCmd re-executes a replay file against the current tree.
func replayCmd(path string) int {
	data, err := os.ReadFile(path)
	if err != nil {
		infra("%v", err)
	}
	var rf replayFile
	if err := json.Unmarshal(data, &rf); err != nil {
		infra("replay file: %v", err)
	}
	b := assemble("strict")
	defer b.cleanup()
	args := []string{"-replay", path}
	r, err := runWorkerJSON(b, args...)
	if err != nil {
		infra("%v", err)
	}
	if r.Infra != "" {
		infra("%s", r.Infra)
	}
	class := ""
	if rf.Violation != nil {
		class = rf.Violation.class()
	}
	if v := hasClass(r, class); v != nil {
		fmt.Printf("replayed: %s\n", v.Detail)
		if r.Hash != rf.Hash {
			fmt.Printf("note: event-log hash %s differs from the recorded %s (the tree or the harness changed since the file was written)\n", r.Hash, rf.Hash)
		} else {
			fmt.Printf("event-log hash %s reproduced exactly\n", r.Hash)
		}
		fmt.Printf("VIOLATION property=%s replay=%s\n", rf.Property, path)
		return 1
	}
	fmt.Printf("replay of %s: the recorded violation (%s) did not occur on this tree (hash %s, recorded %s)\n", path, class, r.Hash, rf.Hash)
	for _, v := range r.Violations {
		fmt.Printf("  other violation seen: %s: %s\n", v.class(), v.Detail)
	}
	return 0
}

// ---------------------------------------------------------------- evidence

func writeEvidence(sp *spec, tier string, seed uint64, agg *aggregate, wall float64, nViol int, known []string, extra map[string]interface{}) {
	evaluations, distinct := agg.runs, len(agg.nontrivial)
	if sp.Engine == "disk" {
		evaluations, distinct = int(agg.probes["crash-points"]), int(agg.probes["distinct-images"])
	}
	cov := map[string]interface{}{
		"evaluations":                         evaluations,
		"distinct_nontrivial":                 distinct,
		"rule":                                sp.Rule,
		"samples":                             agg.samples,
		"distinct_event_log_hashes":           len(agg.allHashes),
		"distinct_abstract_cluster_states":    len(agg.states),
		"state_measure":                       "set of hashes of the per-node tuple (role, term, last log index, commit index, last applied, configuration index) over all nodes, sampled after every release of a node mutex, merged over all runs",
		"scheduler_steps":                     agg.steps,
		"simulated_seconds":                   float64(agg.virtualMs) / 1000,
		"runs_per_hour":                       int(float64(agg.runs) / wall * 3600),
		"operations_applied":                  agg.opsApplied,
		"runs_by_profile":                     agg.byProfile,
		"runs_by_voter_count":                 agg.byVoters,
		"faults_fired":                        agg.faults,
		"probes":                              agg.probes,
		"runs_truncated_by_step_budget":       agg.truncated,
		"runs_discarded":                      agg.discarded,
		"violations_of_other_properties_seen": agg.other,
		"known_findings_hit":                  known,
		"components": map[string]string{
			"raft.go, operation.go, future.go, lease.go, configuration.go, options.go, logging": "real code (rewritten imports only)",
			"log.go, state_storage.go, snapshot_storage.go, internal/fileutil":                  "real code on the simulated disk (simos)",
			"protobuf log/state/configuration codecs, JSON snapshot metadata":                   "real code",
			"sync, time, goroutine scheduling, math/rand, os, path/filepath":                    "simulated (simrt, simtime, simrand, simos, simfp)",
			"transport.go + grpc + requests.go converters":                                      "stub (simulated network); compiled, never executed",
			"state machine": "harness model state machine",
		},
	}
	var notReached []string
	for _, p := range sp.Probes {
		if agg.probes[p] == 0 {
			notReached = append(notReached, p)
		}
	}
	cov["probes_not_reached"] = notReached
	for k, v := range extra {
		cov[k] = v
	}
	if len(agg.samples) == 0 {
		cov["samples"] = []string{"no non-trivial run in this batch"}
	}
	ev := map[string]interface{}{
		"property_id": sp.ID,
		"tier":        tier,
		"seed":        seed,
		"level":       sp.Level,
		"coverage":    cov,
		"assumptions": sp.Assume,
		"wall_s":      wall,
		"violations":  nViol,
	}
	dir := filepath.Join(verifDir, "evidence")
	os.MkdirAll(dir, 0o755)
	data, _ := json.MarshalIndent(ev, "", " ")
	if err := os.WriteFile(filepath.Join(dir, sp.ID+".json"), data, 0o644); err != nil {
		infra("write evidence: %v", err)
	}
}

// ---------------------------------------------------------------- main

func propertySeed(id string, env uint64) uint64 {
	h := uint64(1469598103934665603)
	for i := 0; i < len(id); i++ {
		h ^= uint64(id[i])
		h *= 1099511628211
	}
	return (env*1_000_003 + h%1_000_000) * 1000
}

func main() {
	exe, _ := os.Executable()
	verifDir = os.Getenv("VERIF_DIR")
	if verifDir == "" {
		verifDir = filepath.Dir(filepath.Dir(exe))
		if _, err := os.Stat(filepath.Join(verifDir, "properties.jsonl")); err != nil {
			verifDir = "/verif"
		}
	}
	if len(os.Args) < 2 {
		fmt.Fprintln(os.Stderr, "usage: simcheck <property>|replay <file>|selftest [--tier quick|thorough] [--budget s] [--workers n]")
		os.Exit(2)
	}
	if os.Args[1] == "replay" {
		if len(os.Args) < 3 {
			infra("replay needs a file")
		}
		os.Exit(replayCmd(os.Args[2]))
	}
	tier := os.Getenv("VERIF_TIER")
	if tier == "" {
		tier = "quick"
	}
	budget := 0.0
	workers := runtime.NumCPU()
	for i := 2; i < len(os.Args); i++ {
		switch os.Args[i] {
		case "--tier":
			i++
			tier = os.Args[i]
		case "--budget":
			i++
			budget, _ = strconv.ParseFloat(os.Args[i], 64)
		case "--workers":
			i++
			workers, _ = strconv.Atoi(os.Args[i])
		case "--profile":
			// Diagnosis only: judge this property on runs of another profile (no evidence written).
			i++
			overrideProfile = os.Args[i]
		case "quick", "thorough":
			tier = os.Args[i]
		}
	}
	if v := os.Getenv("VERIF_BUDGET_S"); v != "" && budget == 0 {
		budget, _ = strconv.ParseFloat(v, 64)
	}
	envSeed := uint64(1)
	if v := os.Getenv("VERIF_SEED"); v != "" {
		if x, err := strconv.ParseUint(v, 10, 64); err == nil {
			envSeed = x
		}
	}
	if os.Args[1] == "selftest" {
		os.Exit(selftest(workers))
	}
	sp := specs[os.Args[1]]
	if sp == nil {
		infra("unknown property %q", os.Args[1])
	}
	if overrideProfile != "" {
		sp.Profiles = []string{overrideProfile}
	}
	if sp.Engine == "race" {
		os.Exit(raceCheck(sp, tier, envSeed, budget))
	}
	if budget == 0 {
		budget = sp.QuickS
		if tier == "thorough" {
			budget = sp.ThoroughS
		}
	}
	fmt.Printf("simcheck %s tier=%s VERIF_SEED=%d budget=%.0fs workers=%d\n", sp.ID, tier, envSeed, budget, workers)
	t0 := time.Now()
	b := assemble("strict")
	defer b.cleanup()
	fmt.Printf("build: %.1fs\n", time.Since(t0).Seconds())
	baseSeed := propertySeed(sp.ID, envSeed)
	agg := newAggregate()
	runBatch(b, sp, tier, baseSeed, budget, workers, agg)
	if agg.infra != "" {
		b.cleanup()
		infra("%s", agg.infra)
	}
	if agg.runs == 0 {
		b.cleanup()
		infra("no run completed")
	}
	// Verdict.
	findings := loadFindings()
	classes := make([]string, 0, len(agg.viol))
	for c := range agg.viol {
		classes = append(classes, c)
	}
	sort.Strings(classes)
	exit := 0
	var knownHit []string
	nViol := 0
	maxTrials, maxWall := 150, 60*time.Second
	if tier == "thorough" {
		maxTrials, maxWall = 600, 300*time.Second
	}
	for _, c := range classes {
		occ := agg.viol[c]
		if f := matchFinding(findings, occ[0].V); f != nil {
			fmt.Printf("KNOWN-FINDING: property=%s %s [%s] (%d runs, e.g. seed %d): %s\n", f.Property, f.ID, c, len(occ), occ[0].Seed, f.What)
			knownHit = append(knownHit, f.ID+" "+c)
			continue
		}
		nViol += len(occ)
		// Minimise the occurrence with the earliest violation time.
		sort.Slice(occ, func(i, j int) bool { return occ[i].V.TimeMs < occ[j].V.TimeMs })
		rf := minimise(b, sp.ID, occ[0], maxTrials, maxWall)
		p := writeReplay(rf)
		fmt.Printf("violation class %s in %d run(s); minimised seed %d in %d trials: %s\n", c, len(occ), occ[0].Seed, rf.Trials, rf.Violation.Detail)
		fmt.Printf("VIOLATION property=%s replay=%s\n", sp.ID, p)
		exit = 1
	}
	wall := time.Since(t0).Seconds()
	if overrideProfile == "" {
		writeEvidence(sp, tier, envSeed, agg, wall, nViol, knownHit, nil)
	}
	fmt.Printf("%s: %d runs (%d distinct non-trivial), %.0f simulated s, %d distinct cluster states, %.0fs wall, exit %d\n",
		sp.ID, agg.runs, len(agg.nontrivial), float64(agg.virtualMs)/1000, len(agg.states), wall, exit)
	b.cleanup()
	os.Exit(exit)
}
