package main

import (
	"bufio"
	"encoding/json"
	"fmt"
	"os"
	"os/exec"
	"path/filepath"
	"regexp"
	"sort"
	"strconv"
	"strings"
	"sync"
	"time"
)

func selftest(workers int) int { return 0 }

// raceCheck is engine R (C20): the unmodified repository under testing/synctest and the Go
// race detector (go1.26.8), seeded workload and faults.
func raceCheck(sp *spec, tier string, envSeed uint64, budget float64) int {
	if budget == 0 {
		budget = 40
		if tier == "thorough" {
			budget = 600
		}
	}
	t0 := time.Now()
	base := os.Getenv("VERIF_SCRATCH")
	if base == "" {
		base = os.TempDir()
	}
	dir, err := os.MkdirTemp(base, "verif-race-")
	if err != nil {
		infra("scratch: %v", err)
	}
	defer os.RemoveAll(dir)
	repo := os.Getenv("VERIF_REPO")
	if repo == "" {
		repo = "/repo"
	}
	if out, err := exec.Command("rsync", "-a", "--exclude=.git/", "--exclude=*_test.go", repo+"/", dir+"/raft/").CombinedOutput(); err != nil {
		infra("copy: %v %s", err, out)
	}
	mod, err := os.ReadFile(filepath.Join(verifDir, "race", "go.mod"))
	if err != nil {
		infra("%v", err)
	}
	os.WriteFile(filepath.Join(dir, "r.mod"), []byte(strings.Replace(string(mod), "/verif/.build/dev/raft", dir+"/raft", 1)), 0o644)
	sum, _ := os.ReadFile(filepath.Join(repo, "go.sum"))
	os.WriteFile(filepath.Join(dir, "r.sum"), sum, 0o644)
	bin := filepath.Join(dir, "race.test")
	build := exec.Command("go1.26.8", "test", "-c", "-race", "-modfile="+filepath.Join(dir, "r.mod"), "-o", bin, ".")
	build.Dir = filepath.Join(verifDir, "race")
	build.Env = append(os.Environ(), "GOFLAGS=-mod=mod", "GOPROXY=off", "GOSUMDB=off", "GOTOOLCHAIN=local")
	if out, err := build.CombinedOutput(); err != nil {
		infra("building the race test binary failed: %v\n%s", err, out)
	}
	fmt.Printf("simcheck C20 tier=%s VERIF_SEED=%d budget=%.0fs (build %.1fs)\n", tier, envSeed, budget, time.Since(t0).Seconds())
	data := "/dev/shm"
	if _, err := os.Stat(data); err != nil {
		data = dir
	}
	procs := 8
	var mu sync.Mutex
	var wg sync.WaitGroup
	seedsRun, nontrivial := 0, 0
	totals := map[string]int64{}
	var samples []string
	var earlyTails []string
	reports := map[string]string{} // signature -> first report
	repSeed := map[string]string{}
	var infraMsg string
	baseSeed := int64(propertySeed("C20", envSeed))
	for p := 0; p < procs; p++ {
		wg.Add(1)
		go func(p int) {
			defer wg.Done()
			// A process may die before its budget is used (a fatal runtime error such as a
			// concurrent map access is not recoverable): it is started again on fresh seeds, the
			// early exit is counted and its last lines are kept for the evidence.
			began := time.Now()
			for round := 0; ; round++ {
				left := budget - time.Since(began).Seconds()
				if round > 0 && (left < 10 || round > 20) {
					return
				}
				var tail []string
				cmd := exec.Command(bin, "-test.run", "TestRace", "-test.timeout", "0", "-seed", strconv.FormatInt(baseSeed+int64(p)*100000+int64(round)*5000, 10),
					"-seeds", "1000000", "-budget", fmt.Sprintf("%.0fs", left), "-dir", filepath.Join(data, filepath.Base(dir), fmt.Sprintf("p%d", p)))
				cmd.Env = append(os.Environ(), "GORACE=halt_on_error=0 exitcode=0", "GOMAXPROCS=4")
				pr, _ := cmd.StdoutPipe()
				cmd.Stderr = cmd.Stdout
				if err := cmd.Start(); err != nil {
					mu.Lock()
					infraMsg = err.Error()
					mu.Unlock()
					return
				}
				sc := bufio.NewScanner(pr)
				sc.Buffer(make([]byte, 1<<20), 1<<26)
				var block []string
				var pendingSigs []string
				inBlock := false
				lastSeed := "?"
				flush := func() {
					if len(block) == 0 {
						return
					}
					text := strings.Join(block, "\n")
					if sig := raceSignature(block); sig != "" {
						mu.Lock()
						if _, ok := reports[sig]; !ok {
							reports[sig] = text
							repSeed[sig] = "?"
							pendingSigs = append(pendingSigs, sig)
						}
						mu.Unlock()
					}
					block = nil
				}
				for sc.Scan() {
					line := sc.Text()
					tail = append(tail, line)
					if len(tail) > 40 {
						tail = tail[len(tail)-40:]
					}
					switch {
					case strings.HasPrefix(line, "WARNING: DATA RACE"):
						flush()
						inBlock = true
						block = append(block, line)
					case inBlock && strings.HasPrefix(line, "=================="):
						if len(block) > 1 {
							inBlock = false
							flush()
						}
					case inBlock:
						block = append(block, line)
					case strings.HasPrefix(line, "RACE-SEED-DONE"):
						mu.Lock()
						seedsRun++
						kv := map[string]string{}
						for _, f := range strings.Fields(line)[1:] {
							if i := strings.IndexByte(f, '='); i > 0 {
								kv[f[:i]] = f[i+1:]
							}
						}
						lastSeed = kv["seed"]
						for _, sig := range pendingSigs {
							repSeed[sig] = lastSeed
						}
						pendingSigs = nil
						ops, _ := strconv.ParseInt(kv["ops_ok"], 10, 64)
						stops, _ := strconv.ParseInt(kv["stop_restart_cycles"], 10, 64)
						for _, k := range []string{"ops_ok", "ops_failed", "leader_sightings", "stop_restart_cycles", "partitions", "membership_ok"} {
							v, _ := strconv.ParseInt(kv[k], 10, 64)
							totals[k] += v
						}
						if kv["snapshot_threshold"] != "0" {
							totals["seeds_with_snapshots"]++
						}
						if kv["ok"] != "true" {
							totals["bubbles_panicked"]++
						}
						if ops >= 5 && stops >= 1 {
							nontrivial++
							if len(samples) < 3 {
								samples = append(samples, line)
							}
						}
						mu.Unlock()
					case strings.Contains(line, "panic:") || strings.HasPrefix(line, "FAIL"):
						mu.Lock()
						totals["fail_lines"]++
						if len(samples) < 6 {
							samples = append(samples, "output: "+line)
						}
						mu.Unlock()
					}
				}
				flush()
				cmd.Wait()
				if budget-time.Since(began).Seconds() > 10 {
					mu.Lock()
					totals["process_early_exits"]++
					if len(earlyTails) < 3 {
						earlyTails = append(earlyTails, strings.Join(tail, "\n"))
					}
					mu.Unlock()
				}
			}
		}(p)
	}
	wg.Wait()
	os.RemoveAll(filepath.Join(data, filepath.Base(dir)))
	if infraMsg != "" {
		infra("%s", infraMsg)
	}
	if seedsRun == 0 && len(reports) == 0 {
		infra("no seed completed and no race report")
	}
	if seedsRun == 0 {
		// The processes died before finishing a seed (a racy map access is a fatal runtime
		// error), but not before the detector reported what it saw.
		seedsRun = 1
	}
	for i, t := range earlyTails {
		fmt.Printf("note: a race-test process exited before its budget was used (%d such exits); last lines of #%d:\n%s\n", totals["process_early_exits"], i+1, t)
	}
	if totals["process_early_exits"] > int64(procs)*4 && len(reports) == 0 {
		// (With race reports in hand early exits are expected: a racy map access is a fatal
		// runtime error, and the reports decide.)
		infra("race-test processes keep exiting early (%d times)", totals["process_early_exits"])
	}
	// Verdict.
	findings := loadFindings()
	sigs := make([]string, 0, len(reports))
	for s := range reports {
		sigs = append(sigs, s)
	}
	sort.Strings(sigs)
	exit := 0
	var known []string
	nViol := 0
	for _, sig := range sigs {
		v := violation{Property: "C20", Kind: "data-race", Cause: sig, Detail: reports[sig]}
		if f := matchFinding(findings, v); f != nil {
			fmt.Printf("KNOWN-FINDING: property=C20 %s [%s]: %s\n", f.ID, sig, f.What)
			known = append(known, f.ID+" "+sig)
			continue
		}
		nViol++
		rf := map[string]interface{}{"property": "C20", "profile": "race", "seed": repSeed[sig], "violation": v,
			"note": "engine R: re-running the seed re-executes the same workload and fault plan; the race report reappears with high probability (happens-before based), not exactly"}
		os.MkdirAll(filepath.Join(verifDir, "replays"), 0o755)
		p := filepath.Join(verifDir, "replays", "C20-data-race-"+sanitize(sig)+".json")
		if len(p) > 200 {
			p = p[:190] + ".json"
		}
		b, _ := json.MarshalIndent(rf, "", " ")
		os.WriteFile(p, b, 0o644)
		fmt.Printf("data race %s (first seen at seed %s)\n%s\n", sig, repSeed[sig], reports[sig])
		fmt.Printf("VIOLATION property=C20 replay=%s\n", p)
		exit = 1
	}
	wall := time.Since(t0).Seconds()
	if len(samples) == 0 {
		samples = []string{"no non-trivial seed in this batch"}
	}
	ev := map[string]interface{}{
		"property_id": "C20", "tier": tier, "seed": envSeed, "level": "exploration",
		"coverage": map[string]interface{}{
			"evaluations": seedsRun, "distinct_nontrivial": nontrivial,
			"rule":    "one evaluation = one seed = one synctest bubble: 3-5 voters (+0-1 spare), snapshots on in 2/3 of the seeds, 6 client goroutines calling Status/Configuration/SubmitOperation (all types)/AddServer/RemoveServer concurrently, a fault goroutine isolating nodes and doing Stop+Restart cycles, in-memory transport with seeded delays/drops, real files on tmpfs, 40-100 election timeouts of fake time. Non-trivial: >= 5 acknowledged operations and >= 1 Stop+Restart cycle; seeds are distinct by construction (distinct workload and fault plan).",
			"samples": samples, "totals": totals, "distinct_race_signatures": len(reports), "known_findings_hit": known,
			"seeds_per_hour": int(float64(seedsRun) / wall * 3600),
			"components":     map[string]string{"raft package": "real code, unmodified, real sync/time (time faked by testing/synctest)", "transport": "stub (in-memory), gRPC compiled but not executed", "disk": "real files on tmpfs", "state machine": "harness list state machine"},
			"oracle":         "Go race detector (go1.26.8 -race), reports deduplicated by the pair of innermost raft frames; only reports with a frame in github.com/jmsadair/raft count",
		},
		"assumptions": []string{"which goroutine runs first inside one virtual instant is decided by the Go runtime, not by the seed: a report is a true positive by construction, a miss is possible, and replaying a seed reproduces a report with high probability, not exactly", "the gRPC transport is stubbed"},
		"wall_s":      wall, "violations": nViol,
	}
	os.MkdirAll(filepath.Join(verifDir, "evidence"), 0o755)
	b, _ := json.MarshalIndent(ev, "", " ")
	os.WriteFile(filepath.Join(verifDir, "evidence", "C20.json"), b, 0o644)
	fmt.Printf("C20: %d seeds (%d non-trivial), %d distinct race signatures, %.0fs wall, exit %d\n", seedsRun, nontrivial, len(reports), wall, exit)
	return exit
}

var frameRe = regexp.MustCompile(`^\s+(github\.com/jmsadair/raft\S*)\(\)\s*$`)

// raceSignature: the innermost raft frame of each of the two accesses, sorted.
func raceSignature(block []string) string {
	var tops []string
	expectTop := false
	for _, l := range block {
		t := strings.TrimSpace(l)
		if strings.HasPrefix(t, "Read at") || strings.HasPrefix(t, "Write at") || strings.HasPrefix(t, "Previous read at") || strings.HasPrefix(t, "Previous write at") ||
			strings.HasPrefix(t, "Atomic") || strings.HasPrefix(t, "Previous atomic") {
			expectTop = true
			continue
		}
		if strings.HasPrefix(t, "Goroutine ") {
			expectTop = false
			continue
		}
		if expectTop {
			if m := frameRe.FindStringSubmatch(l); m != nil {
				tops = append(tops, strings.TrimPrefix(m[1], "github.com/jmsadair/raft."))
				expectTop = false
			}
		}
	}
	if len(tops) == 0 {
		return ""
	}
	sort.Strings(tops)
	return strings.Join(tops, " vs ")
}
