package main

func selftest(workers int) int { return 0 }

func raceCheck(sp *spec, tier string, seed uint64, budget float64) int { return 0 }
