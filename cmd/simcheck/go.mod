module verif/cmd/simcheck

go 1.23
