// Command rewrite turns a scratch copy of jmsadair/raft into its simulated twin.
//
// It performs only mechanical, identifier/type-level substitutions on non-test,
// non-generated files (see DESIGN.md section 1.1):
//
//   - per-file import swaps: sync -> xsim/simrt, time -> xsim/simtime,
//     os -> xsim/simos, path/filepath -> xsim/simfp, math/rand -> xsim/simrand
//   - go f(x)            -> xsimrt.Go("f", <closure with eagerly evaluated args>)
//   - blocking select    -> switch xsimrt.AwaitAny(c0, c1, ...) { ... }
//   - for k, v := range m (m a map, by go/types) -> iteration over xsimrt.Keys(m)
//   - m[p] = v with pointer-typed key -> xsimrt.Track(p); m[p] = v
//
// Anything it does not understand is a hard error (exit 2): the checks then
// report an infrastructure failure, never a violation.
package main

import (
	"bytes"
	"flag"
	"fmt"
	"go/ast"
	"go/format"
	"go/token"
	"go/types"
	"os"
	"path/filepath"
	"strconv"
	"strings"

	"golang.org/x/tools/go/ast/astutil"
	"golang.org/x/tools/go/packages"
)

const modPath = "github.com/jmsadair/raft"

var swaps = map[string][2]string{
	"sync":          {modPath + "/xsim/simrt", "sync"},
	"time":          {modPath + "/xsim/simtime", "time"},
	"os":            {modPath + "/xsim/simos", "os"},
	"path/filepath": {modPath + "/xsim/simfp", "filepath"},
	"math/rand":     {modPath + "/xsim/simrand", "rand"},
}

// Files that are compiled but never executed in simulation (the gRPC transport
// stub boundary and the repository's own test helpers) keep their real imports.
var skipFiles = map[string]bool{"transport.go": true, "testing.go": true}

// Imports that must not appear in a rewritten file: they reach the real world.
var forbidden = map[string]bool{
	"net": true, "os/exec": true, "os/signal": true, "syscall": true, "net/http": true,
	"math/rand/v2": true, "crypto/rand": true, "context": false,
}

var raceMode = flag.Bool("race", false, "race mode: redirect only os/filepath (engine R)")

func fatalf(format string, args ...interface{}) {
	fmt.Fprintf(os.Stderr, "rewrite: "+format+"\n", args...)
	os.Exit(2)
}

type fileRW struct {
	fset    *token.FileSet
	file    *ast.File
	info    *types.Info
	n       int
	needRT  bool
	name    string
	changes map[string]int
}

func (rw *fileRW) tmp(prefix string) string {
	rw.n++
	return fmt.Sprintf("xsim%s%d", prefix, rw.n)
}

func ident(n string) *ast.Ident { return ast.NewIdent(n) }

func rtCall(fn string, args ...ast.Expr) *ast.CallExpr {
	return &ast.CallExpr{Fun: &ast.SelectorExpr{X: ident("xsimrt"), Sel: ident(fn)}, Args: args}
}

func strLit(s string) *ast.BasicLit {
	return &ast.BasicLit{Kind: token.STRING, Value: strconv.Quote(s)}
}

// goStmt: go f(a, b) ->
//
//	xsimrt.Go("f", func() func() { xf := f; xa0, xa1 := a, b; return func() { xf(xa0, xa1) } }())
func (rw *fileRW) goStmt(g *ast.GoStmt) ast.Stmt {
	call := g.Call
	name := types.ExprString(call.Fun)
	if _, isLit := call.Fun.(*ast.FuncLit); isLit {
		name = "func"
	}
	if len(name) > 40 {
		name = name[:40]
	}
	var pre []ast.Stmt
	fn := rw.tmp("F")
	pre = append(pre, &ast.AssignStmt{Lhs: []ast.Expr{ident(fn)}, Tok: token.DEFINE, Rhs: []ast.Expr{call.Fun}})
	var args []ast.Expr
	for _, a := range call.Args {
		an := rw.tmp("A")
		pre = append(pre, &ast.AssignStmt{Lhs: []ast.Expr{ident(an)}, Tok: token.DEFINE, Rhs: []ast.Expr{a}})
		args = append(args, ident(an))
	}
	inner := &ast.CallExpr{Fun: ident(fn), Args: args}
	if call.Ellipsis.IsValid() {
		inner.Ellipsis = 1
	}
	closure := &ast.FuncLit{
		Type: &ast.FuncType{Params: &ast.FieldList{}},
		Body: &ast.BlockStmt{List: []ast.Stmt{&ast.ExprStmt{X: inner}}},
	}
	pre = append(pre, &ast.ReturnStmt{Results: []ast.Expr{closure}})
	maker := &ast.FuncLit{
		Type: &ast.FuncType{
			Params:  &ast.FieldList{},
			Results: &ast.FieldList{List: []*ast.Field{{Type: &ast.FuncType{Params: &ast.FieldList{}}}}},
		},
		Body: &ast.BlockStmt{List: pre},
	}
	rw.needRT = true
	rw.changes["go"]++
	return &ast.ExprStmt{X: rtCall("Go", strLit(name), &ast.CallExpr{Fun: maker})}
}

// selectStmt rewrites a blocking, receive-only select.
func (rw *fileRW) selectStmt(sel *ast.SelectStmt) ast.Stmt {
	for _, c := range sel.Body.List {
		if c.(*ast.CommClause).Comm == nil {
			return nil // has default: non-blocking, left alone
		}
	}
	var pre []ast.Stmt
	var chans []ast.Expr
	var cases []ast.Stmt
	for i, c := range sel.Body.List {
		cc := c.(*ast.CommClause)
		var recv *ast.UnaryExpr
		var assign *ast.AssignStmt
		switch s := cc.Comm.(type) {
		case *ast.ExprStmt:
			u, ok := s.X.(*ast.UnaryExpr)
			if !ok || u.Op != token.ARROW {
				fatalf("%s: unsupported select case (not a receive)", rw.pos(cc))
			}
			recv = u
		case *ast.AssignStmt:
			if len(s.Rhs) != 1 {
				fatalf("%s: unsupported select case", rw.pos(cc))
			}
			u, ok := s.Rhs[0].(*ast.UnaryExpr)
			if !ok || u.Op != token.ARROW {
				fatalf("%s: unsupported select case (not a receive)", rw.pos(cc))
			}
			recv = u
			assign = s
		default:
			fatalf("%s: blocking select with a send case cannot be simulated", rw.pos(cc))
		}
		cn := rw.tmp("C")
		pre = append(pre, &ast.AssignStmt{Lhs: []ast.Expr{ident(cn)}, Tok: token.DEFINE, Rhs: []ast.Expr{recv.X}})
		chans = append(chans, ident(cn))
		newRecv := &ast.UnaryExpr{Op: token.ARROW, X: ident(cn)}
		var first ast.Stmt
		if assign != nil {
			first = &ast.AssignStmt{Lhs: assign.Lhs, Tok: assign.Tok, Rhs: []ast.Expr{newRecv}}
		} else {
			first = &ast.ExprStmt{X: newRecv}
		}
		body := append([]ast.Stmt{first}, cc.Body...)
		cases = append(cases, &ast.CaseClause{
			List: []ast.Expr{&ast.BasicLit{Kind: token.INT, Value: strconv.Itoa(i)}},
			Body: body,
		})
	}
	sw := &ast.SwitchStmt{Tag: rtCall("AwaitAny", chans...), Body: &ast.BlockStmt{List: cases}}
	rw.needRT = true
	rw.changes["select"]++
	return &ast.BlockStmt{List: append(pre, sw)}
}

func (rw *fileRW) pos(n ast.Node) string { return rw.fset.Position(n.Pos()).String() }

func (rw *fileRW) mapType(e ast.Expr) *types.Map {
	t := rw.info.TypeOf(e)
	if t == nil {
		return nil
	}
	m, _ := t.Underlying().(*types.Map)
	return m
}

// rangeStmt rewrites iteration over a map.
func (rw *fileRW) rangeStmt(rs *ast.RangeStmt) ast.Stmt {
	if rw.mapType(rs.X) == nil {
		return nil
	}
	if rs.Tok == token.ASSIGN {
		fatalf("%s: range over map with '=' is not supported by the rewriter", rw.pos(rs))
	}
	mv := rw.tmp("M")
	pre := &ast.AssignStmt{Lhs: []ast.Expr{ident(mv)}, Tok: token.DEFINE, Rhs: []ast.Expr{rs.X}}
	isBlank := func(e ast.Expr) bool {
		if e == nil {
			return true
		}
		id, ok := e.(*ast.Ident)
		return ok && id.Name == "_"
	}
	loop := &ast.RangeStmt{Tok: token.DEFINE, X: rtCall("Keys", ident(mv)), Body: &ast.BlockStmt{}}
	rw.needRT = true
	rw.changes["maprange"]++
	if isBlank(rs.Key) && isBlank(rs.Value) {
		// for range m { body }: only the count matters.
		loop.Key = nil
		loop.Tok = token.ILLEGAL
		loop.Body.List = rs.Body.List
		return &ast.BlockStmt{List: []ast.Stmt{pre, loop}}
	}
	var key ast.Expr
	if isBlank(rs.Key) {
		key = ident(rw.tmp("K"))
	} else {
		key = rs.Key
	}
	loop.Key = ident("_")
	loop.Value = key
	okv := rw.tmp("Ok")
	var val ast.Expr = ident("_")
	if !isBlank(rs.Value) {
		val = rs.Value
	}
	get := &ast.AssignStmt{
		Lhs: []ast.Expr{val, ident(okv)}, Tok: token.DEFINE,
		Rhs: []ast.Expr{&ast.IndexExpr{X: ident(mv), Index: key}},
	}
	skip := &ast.IfStmt{
		Cond: &ast.UnaryExpr{Op: token.NOT, X: ident(okv)},
		Body: &ast.BlockStmt{List: []ast.Stmt{&ast.BranchStmt{Tok: token.CONTINUE}}},
	}
	loop.Body.List = append([]ast.Stmt{get, skip}, rs.Body.List...)
	return &ast.BlockStmt{List: []ast.Stmt{pre, loop}}
}

func pureExpr(e ast.Expr) bool {
	switch x := e.(type) {
	case *ast.Ident:
		return true
	case *ast.SelectorExpr:
		return pureExpr(x.X)
	case *ast.ParenExpr:
		return pureExpr(x.X)
	case *ast.StarExpr:
		return pureExpr(x.X)
	case *ast.UnaryExpr:
		return x.Op == token.AND && pureExpr(x.X)
	}
	return false
}

func (rw *fileRW) rewrite() {
	// Import swaps.
	for _, imp := range rw.file.Imports {
		p, _ := strconv.Unquote(imp.Path.Value)
		if forbidden[p] {
			fatalf("%s: import %q reaches outside the simulation", rw.name, p)
		}
		sw, ok := swaps[p]
		if !ok {
			continue
		}
		if *raceMode && p != "os" && p != "path/filepath" {
			continue
		}
		imp.Path.Value = strconv.Quote(sw[0])
		if imp.Name == nil {
			imp.Name = ident(sw[1])
		}
		rw.changes["import:"+p]++
	}
	if *raceMode {
		return
	}
	astutil.Apply(rw.file, func(c *astutil.Cursor) bool {
		switch n := c.Node().(type) {
		case *ast.LabeledStmt:
			if rs, ok := n.Stmt.(*ast.RangeStmt); ok && rw.mapType(rs.X) != nil {
				fatalf("%s: labelled range over a map is not supported by the rewriter", rw.pos(n))
			}
			if _, ok := n.Stmt.(*ast.SelectStmt); ok {
				fatalf("%s: labelled select is not supported by the rewriter", rw.pos(n))
			}
		case *ast.AssignStmt:
			// m[p] = v with a pointer-typed key: give p a deterministic identity.
			for _, l := range n.Lhs {
				ix, ok := l.(*ast.IndexExpr)
				if !ok {
					continue
				}
				m := rw.mapType(ix.X)
				if m == nil {
					continue
				}
				if _, isPtr := m.Key().Underlying().(*types.Pointer); !isPtr {
					continue
				}
				if !pureExpr(ix.Index) {
					fatalf("%s: pointer map key is not a simple expression", rw.pos(n))
				}
				if _, inBlock := c.Parent().(*ast.BlockStmt); !inBlock {
					if _, inCase := c.Parent().(*ast.CaseClause); !inCase {
						fatalf("%s: pointer-keyed map assignment outside a statement list", rw.pos(n))
					}
				}
				c.InsertBefore(&ast.ExprStmt{X: rtCall("Track", ix.Index)})
				rw.needRT = true
				rw.changes["track"]++
			}
		}
		return true
	}, func(c *astutil.Cursor) bool {
		switch n := c.Node().(type) {
		case *ast.GoStmt:
			c.Replace(rw.goStmt(n))
		case *ast.SelectStmt:
			if r := rw.selectStmt(n); r != nil {
				c.Replace(r)
			}
		case *ast.RangeStmt:
			if r := rw.rangeStmt(n); r != nil {
				c.Replace(r)
			}
		case *ast.CompositeLit:
			if m := rw.mapType(n); m != nil && len(n.Elts) > 0 {
				if _, isPtr := m.Key().Underlying().(*types.Pointer); isPtr {
					fatalf("%s: map literal with pointer keys is not supported by the rewriter", rw.pos(n))
				}
			}
		}
		return true
	})
	if rw.needRT {
		astutil.AddNamedImport(rw.fset, rw.file, "xsimrt", modPath+"/xsim/simrt")
	}
}

func main() {
	dir := flag.String("dir", "", "module root of the scratch copy")
	flag.Parse()
	if *dir == "" {
		fatalf("-dir is required")
	}
	cfg := &packages.Config{
		Dir: *dir,
		Mode: packages.NeedName | packages.NeedFiles | packages.NeedCompiledGoFiles | packages.NeedSyntax |
			packages.NeedTypes | packages.NeedTypesInfo | packages.NeedImports,
		Tests: false,
	}
	pkgs, err := packages.Load(cfg, "./...")
	if err != nil {
		fatalf("load: %v", err)
	}
	total := map[string]int{}
	files := 0
	for _, pkg := range pkgs {
		if strings.Contains(pkg.PkgPath, "/xsim/") || strings.HasSuffix(pkg.PkgPath, "/xsim") {
			continue
		}
		if len(pkg.Errors) > 0 {
			for _, e := range pkg.Errors {
				fmt.Fprintf(os.Stderr, "rewrite: %v\n", e)
			}
			fatalf("package %s does not type-check", pkg.PkgPath)
		}
		for i, f := range pkg.Syntax {
			fname := pkg.CompiledGoFiles[i]
			base := filepath.Base(fname)
			if skipFiles[base] || strings.HasSuffix(base, "_test.go") || strings.HasSuffix(base, ".pb.go") {
				continue
			}
			rw := &fileRW{fset: pkg.Fset, file: f, info: pkg.TypesInfo, name: fname, changes: map[string]int{}}
			rw.rewrite()
			if len(rw.changes) == 0 {
				continue
			}
			// Comments are dropped (positions no longer match); build constraints
			// before the package clause are kept.
			var keep []*ast.CommentGroup
			for _, cg := range f.Comments {
				if cg.End() < f.Package {
					keep = append(keep, cg)
				}
			}
			f.Comments = keep
			var buf bytes.Buffer
			if err := format.Node(&buf, pkg.Fset, f); err != nil {
				fatalf("format %s: %v", fname, err)
			}
			if err := os.WriteFile(fname, buf.Bytes(), 0o644); err != nil {
				fatalf("write %s: %v", fname, err)
			}
			files++
			for k, v := range rw.changes {
				total[k] += v
			}
		}
	}
	fmt.Printf("rewrite: %d files changed: %v\n", files, total)
	if !*raceMode {
		if total["go"] == 0 || total["import:sync"] == 0 || total["import:time"] == 0 || total["import:os"] == 0 {
			fatalf("expected constructs not found (go=%d sync=%d time=%d os=%d): wrong tree?",
				total["go"], total["import:sync"], total["import:time"], total["import:os"])
		}
	}
}
