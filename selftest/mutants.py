#!/usr/bin/env python3
"""Sensitivity self-test: hand-written mutants (DESIGN.md section 2) applied one at a time to a
scratch worktree of /repo HEAD; each must be reported by the quick check of at least one of the
properties listed for it. Results: selftest/mutants.tsv. Usage: mutants.py [budget_s] [ids...]"""
import json, os, subprocess, sys, shutil

VERIF = os.path.dirname(os.path.dirname(os.path.abspath(__file__)))
MUTANTS = [
 ("M01-quorum-half-even", "raft.go", "\treturn count > voters/2\n", "\treturn count >= (voters+1)/2\n", ["C02", "C04"],
  "hasQuorum accepts exactly half of an even number of voters"),
 ("M02-vote-steal-longer-log", "raft.go",
  "\tif !request.Prevote && r.votedFor != \"\" && r.votedFor != request.CandidateID {",
  "\tif !request.Prevote && r.votedFor != \"\" && r.votedFor != request.CandidateID &&\n\t\trequest.LastLogIndex <= r.log.LastIndex() {",
  ["C08", "C02"], "a candidate with a longer log may take a vote already cast in this term"),
 ("M03-vote-restriction-index-only", "raft.go",
  "\tif request.LastLogTerm < r.log.LastTerm() ||\n\t\t(request.LastLogTerm == r.log.LastTerm() && r.log.LastIndex() > request.LastLogIndex) {",
  "\tif r.log.LastIndex() > request.LastLogIndex {",
  ["C08", "C07"], "vote restriction compares only the last index"),
 ("M04-commit-prior-term-by-counting", "raft.go",
  "\t\t\t} else if entry.Term != r.currentTerm {\n\t\t\t\tcontinue\n\t\t\t}",
  "\t\t\t} else if entry.Term > r.currentTerm {\n\t\t\t\tcontinue\n\t\t\t}",
  ["C01", "C07", "C06"], "entries of earlier terms are committed by counting replicas (Figure 8)"),
 ("M05-no-fsync-on-append", "log.go",
  "\tif err := l.file.Sync(); err != nil {\n\t\treturn fmt.Errorf(\"could not sync log file: %w\", err)\n\t}\n\n\tl.entries = append(l.entries, entries...)",
  "\tl.entries = append(l.entries, entries...)",
  ["C04", "C12"], "log appends are not fsynced"),
 ("M06-truncate-longer-log", "raft.go",
  "\tif err := r.log.AppendEntries(toAppend); err != nil {\n\t\tr.logger.Fatalf(\"failed to append entries to log: %v\", err)\n\t}\n",
  "\tif err := r.log.AppendEntries(toAppend); err != nil {\n\t\tr.logger.Fatalf(\"failed to append entries to log: %v\", err)\n\t}\n\tif last := request.PrevLogIndex + uint64(len(request.Entries)); len(request.Entries) > 0 && r.log.LastIndex() > last && last >= r.commitIndex {\n\t\tif err := r.log.Truncate(last + 1); err != nil {\n\t\t\tr.logger.Fatalf(\"failed to truncate log: %v\", err)\n\t\t}\n\t}\n",
  ["C06"], "a follower whose log is longer than the request truncates the non-conflicting rest"),
 ("M07-stale-future-answered", "operation.go",
  "\tfor _, responseCh := range r.pendingReplicated {\n\t\trespond(responseCh, OperationResponse{}, ErrNotLeader)\n\t}\n\tr.pendingReadOnly = make(map[*Operation]chan Result[OperationResponse])\n\tr.pendingReplicated = make(map[uint64]chan Result[OperationResponse])",
  "\tr.pendingReadOnly = make(map[*Operation]chan Result[OperationResponse])",
  ["C03"], "futures of a deposed leader stay registered and are answered by whatever is applied at their index"),
 ("M08-vote-not-persisted-same-term", "raft.go",
  "\t\tr.lastContact = time.Now()\n\t\tr.votedFor = request.CandidateID\n\t\tr.persistTermAndVote()",
  "\t\tr.lastContact = time.Now()\n\t\tpersist := r.votedFor != \"\" || response.Term != request.Term\n\t\tr.votedFor = request.CandidateID\n\t\tif persist {\n\t\t\tr.persistTermAndVote()\n\t\t}",
  ["C08", "C02"], "a vote granted right after the term was already persisted by becomeFollower is not persisted again"),
 ("M09-lease-renewed-on-any-reply", "raft.go",
  "\tif numResponses != nil && r.isVoter(id) {\n\t\t*numResponses += 1",
  "\tif numResponses != nil && r.isVoter(id) {\n\t\tr.operationManager.leaderLease.renew()\n\t\t*numResponses += 1",
  ["C17"], "the lease is renewed by any single voter reply, not by a quorum"),
 ("M10-read-without-verification", "operation.go",
  "operation.OperationType == LinearizableReadOnly && operation.quorumVerified && operation.readIndex <= applyIndex",
  "operation.OperationType == LinearizableReadOnly && operation.readIndex <= applyIndex",
  ["C05"], "linearizable reads are served without the heartbeat confirmation"),
 ("M11-compact-off-by-one", "log.go",
  "\tlogIndex := index - l.entries[0].Index\n\tnewEntries := make([]*LogEntry, uint64(len(l.entries))-logIndex)\n\tcopy(newEntries[:], l.entries[logIndex:])",
  "\tlogIndex := index - l.entries[0].Index + 1\n\tif logIndex >= uint64(len(l.entries)) {\n\t\tlogIndex = uint64(len(l.entries)) - 1\n\t}\n\tnewEntries := make([]*LogEntry, uint64(len(l.entries))-logIndex)\n\tcopy(newEntries[:], l.entries[logIndex:])",
  ["C12", "C11", "C10"], "Compact drops one entry too many when more entries follow"),
 ("M12-snapshot-carries-uncommitted-config", "raft.go",
  "\tconfigurationData := r.encodeConfiguration(r.committedConfiguration)",
  "\tconfigurationData := r.encodeConfiguration(r.configuration)",
  ["C10", "C09"], "a snapshot carries the configuration in force instead of the committed one"),
 ("M13-prevote-adopts-term", "raft.go",
  "\tif !request.Prevote && request.Term > r.currentTerm {\n\t\tr.becomeFollower(request.CandidateID, request.Term)",
  "\tif request.Term > r.currentTerm+1 || (!request.Prevote && request.Term > r.currentTerm) {\n\t\tr.becomeFollower(request.CandidateID, request.Term)",
  ["C08", "C16"], "a prevote for a term more than one ahead makes the voter adopt it"),
 ("M14-commit-to-leader-commit", "raft.go",
  "\t\tr.commitIndex = numeric.Min(request.LeaderCommit, r.log.LastIndex())",
  "\t\tr.commitIndex = request.LeaderCommit",
  ["C06", "C01"], "follower commit index is set to the leader's without the bound of its own log"),
 ("M15-setstate-in-place", "state_storage.go",
  "\tfilename := filepath.Join(p.stateDir, stateBase)\n\tif err := os.Rename(tmpFile.Name(), filename); err != nil {",
  "\tfilename := filepath.Join(p.stateDir, stateBase)\n\tif data, err := os.ReadFile(tmpFile.Name()); err == nil {\n\t\tif f, err := os.Create(filename); err == nil {\n\t\t\t_, _ = f.Write(data[:len(data)/2])\n\t\t\t_, _ = f.Write(data[len(data)/2:])\n\t\t\t_ = f.Sync()\n\t\t\t_ = f.Close()\n\t\t}\n\t}\n\tif err := os.Rename(tmpFile.Name(), filename); err != nil {",
  ["C13", "C08"], "state.bin is first rewritten in place (two writes), then replaced by the rename"),
 ("M16-nonvoter-counts-for-commit", "raft.go",
  "\t\t\t\tif id == r.id || !r.configuration.IsVoter[id] {\n\t\t\t\t\tcontinue\n\t\t\t\t}",
  "\t\t\t\tif id == r.id {\n\t\t\t\t\tcontinue\n\t\t\t\t}",
  ["C09", "C04"], "match indices of non-voters count towards commitment"),
 ("M17-status-unlocked", "raft.go",
  "func (r *Raft) Status() Status {\n\tr.mu.Lock()\n\tdefer r.mu.Unlock()\n",
  "func (r *Raft) Status() Status {\n",
  ["C20"], "Status reads protocol state without the node lock"),
 ("M18-snapshot-discard-keeps-tmp", "snapshot_storage.go",
  "\ts.file = nil\n\treturn os.RemoveAll(s.tmpDir)",
  "\ts.file = nil\n\treturn os.Rename(s.tmpDir, s.dir)",
  ["C13", "C11", "C10"], "Discard publishes the partial snapshot instead of deleting it"),
]


def sh(cmd, **kw):
    return subprocess.run(cmd, shell=True, stdout=subprocess.PIPE, stderr=subprocess.STDOUT, text=True, **kw)


def main():
    budget = sys.argv[1] if len(sys.argv) > 1 else "35"
    only = set(sys.argv[2:])
    out = os.path.join(VERIF, "selftest", "mutants.tsv")
    bak = "/tmp/evidence.bak.mut"
    shutil.rmtree(bak, ignore_errors=True)
    if os.path.isdir(os.path.join(VERIF, "evidence")):
        shutil.copytree(os.path.join(VERIF, "evidence"), bak)
    rows = []
    for mid, fname, old, new, props, what in MUTANTS:
        if only and mid.split("-")[0] not in only and mid not in only:
            continue
        wt = "/tmp/wt-" + mid
        sh(f"git -C /repo worktree remove --force {wt}")
        if sh(f"git -C /repo worktree add -q --detach {wt} HEAD").returncode != 0:
            rows.append((mid, "-", "worktree-failed", ""))
            continue
        p = os.path.join(wt, fname)
        s = open(p).read()
        if s.count(old) != 1:
            rows.append((mid, "-", f"pattern-matches-{s.count(old)}", what))
            sh(f"git -C /repo worktree remove --force {wt}")
            continue
        open(p, "w").write(s.replace(old, new))
        b = sh("gofmt -l . ; go build ./...", cwd=wt, env=dict(os.environ, GOFLAGS="-mod=mod", GOPROXY="off", GOSUMDB="off", GOTOOLCHAIN="local"))
        if b.returncode != 0:
            rows.append((mid, "-", "does-not-build", b.stdout[-300:].replace("\n", " ")))
            sh(f"git -C /repo worktree remove --force {wt}")
            continue
        caught = False
        for prop in props:
            before = set(os.listdir(os.path.join(VERIF, "replays"))) if os.path.isdir(os.path.join(VERIF, "replays")) else set()
            r = sh(f"VERIF_REPO={wt} {VERIF}/bin/check {prop} quick --budget {budget} --workers 10")
            classes = " ".join(l.split()[2] for l in r.stdout.splitlines() if l.startswith("violation class") or l.startswith("data race"))
            rows.append((mid, prop, f"exit={r.returncode}", classes))
            dst = os.path.join(VERIF, "replays", "mutants", mid)
            os.makedirs(dst, exist_ok=True)
            for f in set(os.listdir(os.path.join(VERIF, "replays"))) - before:
                if f.endswith(".json"):
                    shutil.move(os.path.join(VERIF, "replays", f), os.path.join(dst, f))
            if r.returncode == 1:
                caught = True
                break
        rows.append((mid, "=", "CAUGHT" if caught else "MISSED", what))
        sh(f"git -C /repo worktree remove --force {wt}")
        with open(out, "w") as f:
            for row in rows:
                f.write("\t".join(row) + "\n")
    shutil.rmtree(os.path.join(VERIF, "evidence"), ignore_errors=True)
    if os.path.isdir(bak):
        shutil.copytree(bak, os.path.join(VERIF, "evidence"))
    print(open(out).read())


if __name__ == "__main__":
    main()
