package harness

import (
	"fmt"
	"sort"
	"strings"

	"github.com/jmsadair/raft"
	"github.com/jmsadair/raft/xsim/simrt"
)

// RegEntry is one committed log position (the "committed registry").
type RegEntry struct {
	Term  uint64
	Type  raft.LogEntryType
	Hash  uint64
	Len   int
	Full  bool   // false: only the term is known (learned from a compaction boundary)
	OpID  uint64 // for operation entries applied somewhere
	// CommitTerm: the current term of the node that first reported the entry as committed
	// (an upper bound of the term in which it was committed).
	CommitTerm uint64
	Src   string // who first reported it
	Seq   uint64
	Applied bool
}

// HandlerCtx is the per-RPC-handler context used by the per-request oracles.
type HandlerCtx struct {
	Msg  *Msg
	Inc  *Incarnation
	Task *simrt.Task

	commitBefore uint64
	commitAfter  uint64
	sawStatus    bool
	termBefore   uint64
	termAfter    uint64
	lastBefore   MEntry
	firstBefore  uint64
	mirrorBefore []MEntry // copy of the mirror at handler start (AE only)

	logCalls    []string
	truncatedAt []uint64
	appended    int
	setStates   int
	compacted   bool
	discarded   bool
	restoring   bool
}

// Recorder is the global event log and the home of all online oracles.
type Recorder struct {
	// ackedAt: acknowledged replicated operations by log index (C04).
	ackedAt map[uint64]*ClientOp
	c *Cluster

	seq  uint64
	hash uint64
	buf  []byte
	trace []string

	Violations []Violation
	seenClass  map[string]int

	// Committed registry.
	Reg    map[uint64]*RegEntry
	RegMax uint64

	// C02.
	leaderByTermStatus map[uint64]string
	leaderByTermMsg    map[uint64]string

	// C08: votes[node][term] = set of candidates.
	votes map[string]map[uint64]map[string]string

	// Vote replies delivered: granted[candidateInc][term] = set of voter ids.
	granted map[*Incarnation]map[uint64]map[string]bool

	ctxByTask map[*simrt.Task]*HandlerCtx

	// Snapshots that became visible anywhere: key = "idx/term" -> list of byte hashes.
	visibleSnaps map[string]map[uint64]bool

	// Client history.
	Ops []*ClientOp

	Probes map[string]int64
	// Distinct abstract cluster states.
	States map[uint64]struct{}

	// Counters.
	Applies, StatusSamples, Handlers int64
	Fatals                           int
	Panics                           int

	leaderFirstSeen []leaderSighting

	ConfCalls   []*ConfCall
	curConfCall map[*simrt.Task]*ConfCall
	ApiCalls    []*ApiCall

	pending     map[*Node]*pendingLogOp
	imageChecks int
	confSeen    map[confKey]raft.Configuration
	deadIncs    []*Incarnation
	anyTaint    map[string]bool
}

type confKey struct{ Index, Term uint64 }

type leaderSighting struct {
	Inc  *Incarnation
	Term uint64
	Seq  uint64
	Ns   int64
}

func newRecorder(c *Cluster) *Recorder {
	return &Recorder{
		c: c, hash: 1469598103934665603,
		seenClass:          map[string]int{},
		Reg:                map[uint64]*RegEntry{},
		leaderByTermStatus: map[uint64]string{},
		leaderByTermMsg:    map[uint64]string{},
		votes:              map[string]map[uint64]map[string]string{},
		granted:            map[*Incarnation]map[uint64]map[string]bool{},
		ctxByTask:          map[*simrt.Task]*HandlerCtx{},
		visibleSnaps:       map[string]map[uint64]bool{},
		Probes:             map[string]int64{},
		States:             map[uint64]struct{}{},
		pending:            map[*Node]*pendingLogOp{},
		curConfCall:        map[*simrt.Task]*ConfCall{},
		confSeen:           map[confKey]raft.Configuration{},
	}
}

// ev appends one event to the log (hash always, text when tracing).
func (r *Recorder) ev(format string, args ...interface{}) {
	r.seq++
	r.buf = r.buf[:0]
	r.buf = fmt.Appendf(r.buf, format, args...)
	h := r.hash
	for _, b := range r.buf {
		h ^= uint64(b)
		h *= 1099511628211
	}
	h ^= uint64(r.c.Sim.Now())
	h *= 1099511628211
	r.hash = h
	if r.c.Cfg.Trace {
		r.trace = append(r.trace, fmt.Sprintf("%8d %10.3fms %s", r.seq, float64(r.c.Sim.Now())/1e6, string(r.buf)))
	}
}

func (r *Recorder) probe(name string) { r.Probes[name]++ }

func (r *Recorder) setTaint(n *Node, t string) {
	if n.taint == nil {
		n.taint = map[string]bool{}
	}
	if !n.taint[t] {
		n.taint[t] = true
		r.ev("taint %s %s", n.ID, t)
	}
	if r.anyTaint == nil {
		r.anyTaint = map[string]bool{}
	}
	r.anyTaint[t] = true
}

// taintedAny is tainted for things that come from another node (installed snapshots):
// any node having shown the signature counts.
func (r *Recorder) taintedAny(cause string, relevant ...string) string {
	for _, t := range relevant {
		if r.anyTaint[t] {
			cause += "+" + t
		}
	}
	return cause
}

// tainted appends the node's taints (of the given, relevant ones) to a cause.
func (r *Recorder) tainted(n *Node, cause string, relevant ...string) string {
	for _, t := range relevant {
		if n.taint[t] {
			cause += "+" + t
		}
	}
	return cause
}

func (r *Recorder) violate(prop, kind, cause, format string, args ...interface{}) {
	diverged := false
	if prop == "C09" && kind == "config-step" {
		// The committed sequence of configurations can only be trusted while the run has not split
		// into two histories (which is what F4 produces).
		for cl := range r.seenClass {
			if strings.HasPrefix(cl, "C09/two-leaders") || strings.HasPrefix(cl, "C09/committed-divergence") || strings.HasPrefix(cl, "C09/truncated-committed") || strings.HasPrefix(cl, "C09/leader-incomplete") {
				diverged = true
			}
		}
	}
	if prop == "C09" && r.anyTaint["F4"] && kind != "config-divergence" && (kind != "config-step" || diverged) {
		// Known finding F4 (configurations two steps apart in force at once) was observed in
		// this run: core safety violations attributed to C09 may be its consequence.
		cause += "+F4"
	}
	if prop == "C06" && r.c.Cfg.SnapThreshold > 0 && r.anyTaint["F2"] && !strings.Contains(cause, "+F2") {
		// Known finding F2 breaks log matching itself (AppendEntries accepted over a stale log
		// against the boundary InstallSnapshot published): in a run with snapshots in which a node
		// showed F2's signature, violations of the AppendEntries contract may be its consequence.
		cause += "+F2"
	}
	if (prop == "C10" || prop == "C11") && r.c.Cfg.Membership && r.anyTaint["F4"] && !strings.Contains(cause, "+F4") {
		// Snapshots on top of a history that F4 has already split (a C09 divergence was reported
		// in this run): their content and labels are judged against one of the two histories.
		for cl := range r.seenClass {
			if strings.HasPrefix(cl, "C09/two-leaders") || strings.HasPrefix(cl, "C09/committed-divergence") || strings.HasPrefix(cl, "C09/truncated-committed") || strings.HasPrefix(cl, "C09/leader-incomplete") {
				cause += "+F4"
				break
			}
		}
	}
	v := Violation{Property: prop, Kind: kind, Cause: cause, Detail: fmt.Sprintf(format, args...), Seq: r.seq, TimeMs: r.c.nowMs()}
	cl := v.Class()
	r.seenClass[cl]++
	if r.seenClass[cl] > 3 || len(r.Violations) > 200 {
		return
	}
	r.Violations = append(r.Violations, v)
	// Only the class is part of the hashed event log: details may contain stack
	// traces whose addresses differ from process to process.
	r.ev("VIOLATION %s %s [%s]", v.Property, v.Kind, v.Cause)
	if r.c.Cfg.Trace {
		r.trace = append(r.trace, "          detail: "+v.Detail)
	}
}

// ------------------------------------------------------------------ lifecycle

func (r *Recorder) incarnationStart(inc *Incarnation) {
	r.ev("start %s", inc.Name())
}

func (r *Recorder) incarnationEnd(inc *Incarnation, kind string) {
	r.ev("end %s %s", inc.Name(), kind)
	if inc.SM != nil && len(inc.SM.Ops) > 0 {
		r.deadIncs = append(r.deadIncs, inc)
	}
}

func (r *Recorder) startFailed(inc *Incarnation, err error) {
	r.ev("startfail %s %v", inc.Name(), err)
	if n := inc.Node; n.FS.ErrFired > 0 && n.FS.OpCount-n.FS.ErrFiredOp <= 3 {
		// A storage error injected while the node was starting: failing to start is the
		// repository's (fail-stop) answer, as for a running node. The node is down again.
		r.probe("start-failed-after-injected-disk-error")
		n.FS.ErrFired = 0
		return
	}
	cause := classifyStartError(err)
	if cause == "snapshot-load" {
		cause = r.tainted(inc.Node, cause, "F3")
	}
	// Constructing and starting a node over a crashed directory must succeed at the first attempt.
	r.violate("C14", "restart-failed", cause, "%s: NewRaft/Start over the crashed directory failed: %v", inc.Name(), err)
}

func classifyStartError(err error) string {
	s := err.Error()
	switch {
	case strings.Contains(s, "remove temporary files"):
		return "tmp-cleanup"
	case strings.Contains(s, "replay log"):
		return "log-replay"
	case strings.Contains(s, "recover state"):
		return "state-load"
	case strings.Contains(s, "snapshot"):
		return "snapshot-load"
	}
	if i := strings.Index(s, ":"); i > 0 {
		return s[:i]
	}
	return "other"
}

func (r *Recorder) fatalExit(inc *Incarnation, code int, stack string) {
	r.Fatals++
	where := fatalSite(stack)
	r.ev("fatal %s code=%d at %s", inc.Name(), code, where)
	r.onFatal(inc, where, stack)
}

// fatalSite extracts the raft function that called logger.Fatal* from a stack.
func fatalSite(stack string) string {
	lines := strings.Split(stack, "\n")
	for i, l := range lines {
		if strings.Contains(l, "logging.(*Logger).Fatal") {
			// Skip Fatal/Fatalf frames; the next function line that is not in logging.
			for j := i + 2; j < len(lines); j += 2 {
				f := strings.TrimSpace(lines[j])
				if strings.Contains(f, "logging.(*Logger)") {
					continue
				}
				if k := strings.Index(f, "("); k > 0 {
					f = f[:strings.LastIndex(f, "(")]
				}
				f = strings.TrimPrefix(f, "github.com/jmsadair/raft.")
				return f
			}
		}
	}
	return "unknown"
}

// panicOrigin returns the function in which a panic was raised (the first frame after the
// runtime's panic frames).
func panicOrigin(stack string) string {
	lines := strings.Split(stack, "\n")
	seenPanic := false
	for i := 0; i < len(lines); i++ {
		l := strings.TrimSpace(lines[i])
		if strings.HasPrefix(l, "panic(") {
			seenPanic = true
			continue
		}
		if !seenPanic || l == "" || strings.HasPrefix(l, "/") || strings.HasPrefix(l, "runtime.") || strings.HasPrefix(l, "runtime/") {
			continue
		}
		return l
	}
	return ""
}

func (r *Recorder) taskPanic(t *simrt.Task, val interface{}, stack string) {
	// A panic raised inside the harness or the simulated runtime is an infrastructure failure
	// (exit 2), never a verdict about the code under test.
	if o := panicOrigin(stack); strings.HasPrefix(o, "verifsim/") || strings.Contains(o, "/xsim/") {
		if r.c.Sim.Infra == "" {
			r.c.Sim.Infra = fmt.Sprintf("panic in the harness (task %s): %v\n%s", t.Name, val, stack)
		}
		return
	}
	r.Panics++
	r.ev("panic %s %v", t.Name, val)
	site := panicSite(stack)
	r.violate("C18", "panic", site, "task %s panicked: %v\n%s", t.Name, val, trimStack(stack))
}

func panicSite(stack string) string {
	lines := strings.Split(stack, "\n")
	seenPanic := false
	for i := 0; i < len(lines); i++ {
		l := strings.TrimSpace(lines[i])
		if strings.HasPrefix(l, "panic(") {
			seenPanic = true
			continue
		}
		if seenPanic && strings.HasPrefix(l, "github.com/jmsadair/raft") && !strings.Contains(l, "/xsim/") {
			if k := strings.LastIndex(l, "("); k > 0 {
				l = l[:k]
			}
			return strings.TrimPrefix(l, "github.com/jmsadair/raft.")
		}
	}
	return "unknown"
}

// trimStack keeps function names and file:line positions only (no goroutine
// ids, argument words or addresses: those differ from process to process).
func trimStack(s string) string {
	lines := strings.Split(s, "\n")
	var out []string
	for _, l := range lines {
		t := strings.TrimSpace(l)
		if t == "" || strings.HasPrefix(t, "goroutine ") {
			continue
		}
		if strings.Contains(t, "/xsim/") || strings.Contains(t, "runtime/debug") || strings.Contains(t, "runtime/panic") || strings.HasPrefix(t, "panic(") {
			continue
		}
		if i := strings.LastIndex(t, "("); i > 0 && !strings.Contains(t, ".go:") {
			t = t[:i]
		}
		if i := strings.Index(t, " +0x"); i > 0 {
			t = t[:i]
		}
		out = append(out, t)
		if len(out) >= 16 {
			break
		}
	}
	return strings.Join(out, " <- ")
}

func (r *Recorder) storageCall(inc *Incarnation, what string, err error) {
	if err != nil {
		r.ev("storage %s %s err=%v", inc.Name(), what, err)
	}
}

func (r *Recorder) diskLostUnsynced(n *Node, files int) {
	r.ev("lostunsynced %s files=%d", n.ID, files)
}

// ------------------------------------------------------------------ registry

func (r *Recorder) regPut(idx uint64, e MEntry, src string, reporterTerm uint64) {
	if idx == 0 {
		return
	}
	old, ok := r.Reg[idx]
	if !ok {
		r.Reg[idx] = &RegEntry{Term: e.Term, Type: e.Type, Hash: e.Hash, Len: e.Len, Full: !e.Placeholder, Src: src, Seq: r.seq, CommitTerm: reporterTerm}
		if idx > r.RegMax {
			r.RegMax = idx
		}
		return
	}
	if old.Term != e.Term || (old.Full && !e.Placeholder && (old.Type != e.Type || old.Hash != e.Hash || old.Len != e.Len)) {
		r.violate(r.safetyProp("C01"), "committed-divergence", "index-conflict",
			"index %d committed as term=%d type=%d hash=%x (by %s) but %s reports term=%d type=%d hash=%x",
			idx, old.Term, old.Type, old.Hash, old.Src, src, e.Term, e.Type, e.Hash)
		return
	}
	if !old.Full && !e.Placeholder {
		old.Type, old.Hash, old.Len, old.Full = e.Type, e.Hash, e.Len, true
	}
}

// safetyProp attributes a core safety violation to C09 in membership profiles
// (DESIGN 5/C09(g)), otherwise to the given property.
func (r *Recorder) safetyProp(p string) string {
	if r.c.Cfg.Membership {
		return "C09"
	}
	return p
}

// ------------------------------------------------------------------ state machine events

func restartingNow(inc *Incarnation) bool {
	return inc.haveStatus && inc.lastStatus.State == raft.Shutdown
}

func (r *Recorder) onApply(inc *Incarnation, sm *ModelSM, a AppliedOp) {
	r.Applies++
	if inc.restoring > 0 {
		// Signature of F2: the apply loop runs inside the unlocked restore window of InstallSnapshot.
		r.setTaint(inc.Node, "F2")
	}
	r.ev("apply %s idx=%d term=%d op=%d", inc.Name(), a.Index, a.Term, a.OpID)
	// C01: same (term, bytes) at an index everywhere, forever.
	e := MEntry{Index: a.Index, Term: a.Term, Type: raft.OperationEntry, Hash: a.Hash, Len: -1}
	if old, ok := r.Reg[a.Index]; ok {
		if old.Term != a.Term || (old.Full && (old.Type != raft.OperationEntry || old.Hash != a.Hash)) {
			r.violate(r.safetyProp("C01"), "apply-divergence", "index-conflict",
				"%s applies index %d term=%d op=%d hash=%x, but that index is committed as term=%d type=%d hash=%x (by %s)",
				inc.Name(), a.Index, a.Term, a.OpID, a.Hash, old.Term, old.Type, old.Hash, old.Src)
		} else {
			if !old.Full {
				old.Type, old.Hash, old.Full = raft.OperationEntry, a.Hash, true
			}
			old.OpID = a.OpID
			old.Applied = true
		}
	} else {
		ct := a.Term
		if inc.haveStatus && inc.lastStatus.Term > ct {
			ct = inc.lastStatus.Term
		}
		r.Reg[a.Index] = &RegEntry{Term: a.Term, Type: raft.OperationEntry, Hash: a.Hash, Len: e.Len, Full: true, OpID: a.OpID, Src: "apply@" + inc.Name(), Seq: r.seq, Applied: true, CommitTerm: ct}
		if a.Index > r.RegMax {
			r.RegMax = a.Index
		}
	}
	// C01: strictly increasing between restores.
	if a.Index <= sm.lastIndexSinceRestore && sm.lastIndexSinceRestore != 0 {
		kind := "apply-order"
		prop := "C01"
		if sm.Restores > 0 || r.c.Cfg.SnapThreshold > 0 {
			prop = "C10"
		}
		r.violate(prop, kind, r.taintedAny("non-increasing", "F1", "F2"), "%s: Apply(index %d) after index %d on the same state machine instance",
			inc.Name(), a.Index, sm.lastIndexSinceRestore)
	}
	if sm.busy > 1 {
		r.probe("sm-call-overlap")
	}
}

func (r *Recorder) onSMSnapshot(inc *Incarnation, sm *ModelSM, data []byte) {
	r.ev("smsnapshot %s ops=%d bytes=%d", inc.Name(), len(sm.Ops), len(data))
	if sm.busy > 1 {
		r.probe("snapshot-during-apply")
	}
}

func (r *Recorder) onBadSnapshot(inc *Incarnation, err error, n int) {
	r.ev("badsnapshot %s %v", inc.Name(), err)
	r.violate("C10", "restore-garbage", r.tainted(inc.Node, "undecodable", "F3"), "%s: Restore was handed %d bytes that are not a snapshot any state machine produced: %v", inc.Name(), n, err)
}

func (r *Recorder) onRestore(inc *Incarnation, sm *ModelSM, ops []AppliedOp, data []byte) {
	last := uint64(0)
	if len(ops) > 0 {
		last = ops[len(ops)-1].Index
	}
	r.ev("restore %s ops=%d last=%d bytes=%d", inc.Name(), len(ops), last, len(data))
	if sm.busy > 1 {
		r.probe("restore-during-apply")
	}
	if sm.applying > 0 {
		// Signature of F2: Restore while a replicated Apply is in flight on the same
		// instance: the stale operation lands on top of the restored state.
		r.setTaint(inc.Node, "F2")
	}
	if ctx := r.ctxByTask[r.c.Sim.Cur()]; ctx != nil && ctx.Msg.Kind == KindIS && inc.haveStatus && !restartingNow(inc) {
		if inc.lastStatus.LastApplied > ctx.Msg.IS.LastIncludedIndex {
			defer r.setTaint(inc.Node, "F2")
			defer r.setTaint(inc.Node, "F2r")
			r.violate("C11", "restore-older", r.tainted(inc.Node, "behind-applied-index", "F3"), "%s: Restore of a snapshot labelled %d while the node has already applied index %d",
				inc.Name(), ctx.Msg.IS.LastIncludedIndex, inc.lastStatus.LastApplied)
		}
	}
	// C11(c): never install a snapshot older than what the instance has applied
	// (a restore that is part of (re)starting the node from its persisted state is exempt).
	restarting := inc.haveStatus && inc.lastStatus.State == raft.Shutdown
	if len(sm.Ops) > len(ops) && !restarting {
		defer r.setTaint(inc.Node, "F2")
		defer r.setTaint(inc.Node, "F2r") // restored to an OLDER state: what lies between is skipped
		r.violate("C11", "restore-older", r.tainted(inc.Node, "fewer-ops", "F3"), "%s: Restore with %d operations (last index %d) onto an instance that already applied %d (last index %d)",
			inc.Name(), len(ops), last, len(sm.Ops), sm.lastIndexSinceRestore)
	}
	// Signature of F1 seen at a restore: the snapshot being restored holds operations beyond its
	// label (it may have become visible by a rename right before a crash, in which case the
	// observation at the close of the file never happened).
	if inc.openedLabel > 0 && last > inc.openedLabel {
		r.setTaint(inc.Node, "F1")
		r.violate("C10", "snapshot-label-mismatch", "extra-entries-restored", "%s: the snapshot labelled %d it restores contains operation(s) beyond its label (last contained index %d)",
			inc.Name(), inc.openedLabel, last)
	}
	r.checkOpsArePrefix(inc, ops, "installed or restored snapshot")
}

// checkOpsArePrefix: C10(b) a state machine's content must be a prefix of the
// authoritative applied sequence: same ops at the same indices, none skipped.
func (r *Recorder) checkOpsArePrefix(inc *Incarnation, ops []AppliedOp, what string) {
	prev := uint64(0)
	for _, o := range ops {
		if o.Index <= prev {
			cause := r.taintedAny("duplicate-or-reorder", "F1", "F2")
			if strings.HasPrefix(what, "installed") {
				cause = r.taintedAny("duplicate-or-reorder", "F1", "F2")
				// The duplicate came with the snapshot from a node that showed F1/F2: the state
				// machine that is restored from it carries it on (and so do its own snapshots).
				for _, t := range []string{"F1", "F2"} {
					if r.anyTaint[t] {
						r.setTaint(inc.Node, t)
					}
				}
			}
			r.violate("C10", "content-order", cause, "%s: %s lists index %d after %d", inc.Name(), what, o.Index, prev)
			return
		}
		prev = o.Index
		if reg, ok := r.Reg[o.Index]; ok && reg.Full {
			if reg.Term != o.Term || reg.Hash != o.Hash || reg.Type != raft.OperationEntry {
				// A stale entry applied through the unlocked restore window of InstallSnapshot (F2:
				// AppendEntries accepted against the published boundary over the stale log) ends up
				// in the state machine and hence in its snapshots.
				cause := r.tainted(inc.Node, "index-conflict", "F2")
				if strings.HasPrefix(what, "installed") {
					cause = r.taintedAny("index-conflict", "F2")
				}
				r.violate("C10", "content-divergence", cause, "%s: %s holds index %d term=%d hash=%x, committed is term=%d type=%d hash=%x",
					inc.Name(), what, o.Index, o.Term, o.Hash, reg.Term, reg.Type, reg.Hash)
				return
			}
		}
	}
}

// ------------------------------------------------------------------ status samples

func (r *Recorder) onStatus(inc *Incarnation, st raft.Status) {
	r.StatusSamples++
	n := inc.Node
	prev := inc.lastStatus
	had := inc.haveStatus
	if had && prev == st {
		return
	}
	if had && prev.State == raft.Shutdown && st.State != raft.Shutdown {
		// Stop followed by Start/Restart on the same object: volatile indices start over
		// from the persisted state, exactly as in a new process.
		had = false
		r.probe("graceful-restart")
	}
	inc.lastStatus = st
	inc.haveStatus = true
	r.ev("status %s term=%d state=%d commit=%d applied=%d", inc.Name(), st.Term, st.State, st.CommitIndex, st.LastApplied)

	// C08(a): the term never decreases, not even across incarnations.
	if st.Term < n.lastTermSeen {
		r.violate("C08", "term-regressed", "status", "%s reports term %d after term %d was observed (%s)", inc.Name(), st.Term, n.lastTermSeen, n.lastTermSrc)
	} else if st.Term > n.lastTermSeen {
		n.lastTermSeen = st.Term
		n.lastTermSrc = "status of " + inc.Name()
	}
	if had && inc.restoring > 0 && (st.LastApplied > prev.LastApplied || st.CommitIndex > prev.CommitIndex) {
		// Signature of F2: the node makes progress inside the unlocked restore window of
		// InstallSnapshot; the handler then overwrites commit/applied with the snapshot label.
		r.setTaint(n, "F2")
	}
	if had && prev.State != raft.Shutdown {
		// C11(b)/C06(c): within an incarnation commit and applied indices never decrease (a node
		// that was stopped and is started again in place begins anew from its persisted state).
		if st.CommitIndex < prev.CommitIndex {
			r.violate("C11", "commit-regressed", r.tainted(n, "status", "F2", "F3"), "%s commit index %d -> %d", inc.Name(), prev.CommitIndex, st.CommitIndex)
		}
		if st.LastApplied < prev.LastApplied {
			r.violate("C11", "applied-regressed", r.tainted(n, "status", "F2", "F3"), "%s last applied %d -> %d", inc.Name(), prev.LastApplied, st.LastApplied)
		}
	}
	// Feed the committed registry from the commit index and the node's log mirror.
	lo := uint64(0)
	if had {
		lo = prev.CommitIndex
	}
	if st.CommitIndex > lo {
		m := n.Mirror
		for i := lo + 1; i <= st.CommitIndex; i++ {
			if i < n.snapLabel {
				continue // covered by a snapshot on this node: the log below the label is not authoritative
			}
			if e, ok := m.get(i); ok {
				r.regPut(i, e, "commit@"+inc.Name(), st.Term)
			}
		}
	}
	// Handler context. State only changes under the node lock and every release is
	// sampled, so prev is the state right before this task's critical section.
	if ctx := r.ctxByTask[r.c.Sim.Cur()]; ctx != nil && ctx.Inc == inc && had {
		if !ctx.sawStatus {
			ctx.commitBefore = prev.CommitIndex
			ctx.termBefore = prev.Term
		}
		ctx.commitAfter = st.CommitIndex
		ctx.termAfter = st.Term
		ctx.sawStatus = true
	}
	if r.c.Cfg.Membership || r.c.Cfg.ApiFuzz {
		if conf, ok := r.c.configuration(inc); ok {
			r.onConfiguration(inc, conf)
		}
		if r.c.Cfg.Membership && st.State == raft.Leader && had && st.CommitIndex > prev.CommitIndex {
			r.checkCommitQuorum(inc, st)
		}
		// Membership futures: note when the submitter applied its own entry while still leading that term.
		if len(inc.pendingConf) > 0 {
			keep := inc.pendingConf[:0]
			for _, call := range inc.pendingConf {
				appliedNow := st.LastApplied >= call.AppendedIndex
				wasLeader := had && prev.State == raft.Leader && prev.Term == call.TermAt
				if st.Term != call.TermAt {
					continue // leadership lost first: no obligation
				}
				if st.State != raft.Leader && !(appliedNow && wasLeader && prev.LastApplied < call.AppendedIndex) {
					continue
				}
				if appliedNow {
					// (The entry at that index must still be a configuration entry: under F4 two leaders
					// of one term can exist, the other one's request truncates the log and an ordinary
					// operation with the same index and term takes the place of the change.)
					if reg, ok := r.Reg[call.AppendedIndex]; ok && reg.Term == call.AppendedTerm && reg.Type == raft.ConfigurationEntry {
						call.AppliedAtNs = r.c.Sim.Now()
						call.AppliedSeq = r.seq
						r.probe("membership-change-applied-by-its-leader")
					}
					continue
				}
				keep = append(keep, call)
			}
			inc.pendingConf = keep
		}
	}
	// Signature of F4 also when a campaign starts: the votes of an election are requested from and
	// counted against the configuration in force at that time.
	if r.c.Cfg.Membership && (st.State == raft.Candidate || st.State == raft.PreCandidate) && (!had || prev.State != st.State || prev.Term != st.Term) {
		r.checkStaleConfigurationInForce(inc, "campaign-started-with-stale-configuration-in-force")
	}
	// C02(a): at most one node in Leader state per term.
	if st.State == raft.Leader {
		if who, ok := r.leaderByTermStatus[st.Term]; ok && who != n.ID {
			r.violate(r.safetyProp("C02"), "two-leaders", "status", "term %d: %s and %s both reported Leader", st.Term, who, n.ID)
		} else if !ok {
			r.leaderByTermStatus[st.Term] = n.ID
		}
		if !inc.leaderTerms[st.Term] {
			inc.leaderTerms[st.Term] = true
			r.onNewLeader(inc, st)
		}
	}
	r.c.onStatusChange(inc, prev, st, had)
	r.noteClusterState()
}

func (r *Recorder) noteClusterState() {
	h := uint64(1469598103934665603)
	for _, n := range r.c.Nodes {
		var a [6]uint64
		if n.Inc != nil && n.Inc.haveStatus {
			s := n.Inc.lastStatus
			a = [6]uint64{uint64(s.State) + 1, s.Term, n.Mirror.last().Index, s.CommitIndex, s.LastApplied, n.Inc.lastConfIdx}
		}
		for _, v := range a {
			h ^= v
			h *= 1099511628211
		}
	}
	r.States[h] = struct{}{}
}

// onNewLeader runs at the first sample showing inc as leader of a term.
// checkStaleConfigurationInForce: signature of known finding F4: the node leads (or campaigns)
// with a configuration in force that is older than a configuration entry in its own log,
// because followers adopt a configuration only when it is applied.
func (r *Recorder) checkStaleConfigurationInForce(inc *Incarnation, probe string) {
	if !r.c.Cfg.Membership {
		return
	}
	conf, ok := r.c.configuration(inc)
	if !ok {
		return
	}
	m := inc.Node.Mirror
	for i := len(m.Entries) - 1; i >= 1; i-- {
		if m.Entries[i].Type == raft.ConfigurationEntry && !m.Entries[i].Placeholder {
			if m.Entries[i].Index > conf.Index {
				r.probe(probe)
				if r.anyTaint == nil {
					r.anyTaint = map[string]bool{}
				}
				if !r.anyTaint["F4"] {
					r.anyTaint["F4"] = true
					r.ev("taint * F4")
				}
			}
			break
		}
	}
}

func (r *Recorder) onNewLeader(inc *Incarnation, st raft.Status) {
	n := inc.Node
	r.ev("leader %s term=%d", inc.Name(), st.Term)
	r.probe("leader-elected")
	r.leaderFirstSeen = append(r.leaderFirstSeen, leaderSighting{Inc: inc, Term: st.Term, Seq: r.seq, Ns: r.c.Sim.Now()})
	m := n.Mirror
	r.checkStaleConfigurationInForce(inc, "leader-elected-with-stale-configuration-in-force")
	// C07: the new leader holds every entry committed so far.
	missing := 0
	for idx := m.first() + 1; idx <= r.RegMax; idx++ {
		reg, ok := r.Reg[idx]
		if !ok {
			continue
		}
		// Leader completeness speaks about leaders of HIGHER terms than the one the entry was
		// committed in: a node may legitimately win an old term late (votes granted long ago and
		// delivered after a long delay) when a newer term has already committed entries.
		if reg.CommitTerm >= st.Term {
			continue
		}
		e, have := m.get(idx)
		if !have || e.Term != reg.Term || (reg.Full && !e.Placeholder && (e.Hash != reg.Hash || e.Type != reg.Type)) {
			missing++
			if missing == 1 {
				r.violate(r.safetyProp("C07"), "leader-incomplete", "missing-committed",
					"%s became leader of term %d without committed index %d (term %d, by %s); its log: first=%d last=%d/%d have=%v entryTerm=%d",
					inc.Name(), st.Term, idx, reg.Term, reg.Src, m.first(), m.last().Index, m.last().Term, have, e.Term)
			}
		}
	}
	// C02(c): the votes actually granted and delivered form a majority of the voters
	// of the leader's own configuration.
	conf, ok := r.c.configuration(inc)
	if !ok {
		return
	}
	voters := 0
	for _, v := range conf.IsVoter {
		if v {
			voters++
		}
	}
	got := 0
	if conf.IsVoter[n.ID] {
		got++
	}
	var from []string
	for id := range r.granted[inc][st.Term] {
		if id != n.ID && conf.IsVoter[id] {
			got++
		}
		from = append(from, id)
	}
	sort.Strings(from)
	if voters > 0 && got*2 <= voters {
		r.violate(r.safetyProp("C02"), "leader-without-quorum", "votes",
			"%s is leader of term %d with votes from %v (+self) = %d of %d voters in its configuration %v",
			inc.Name(), st.Term, from, got, voters, confString(conf))
	}
	if voters%2 == 0 && got*2 == voters+2 {
		r.probe("elected-with-bare-majority-even")
	}
}

func confString(c raft.Configuration) string {
	ids := make([]string, 0, len(c.Members))
	for id := range c.Members {
		ids = append(ids, id)
	}
	sort.Strings(ids)
	var b strings.Builder
	fmt.Fprintf(&b, "@%d{", c.Index)
	for i, id := range ids {
		if i > 0 {
			b.WriteByte(' ')
		}
		b.WriteString(id)
		if !c.IsVoter[id] {
			b.WriteString("(nv)")
		}
	}
	b.WriteByte('}')
	return b.String()
}

// ------------------------------------------------------------------ network events

func (r *Recorder) netSend(m *Msg) {
	from := m.From.Node.ID
	switch m.Kind {
	case KindAE:
		r.ev("send AE#%d %s->%s term=%d prev=%d/%d n=%d commit=%d", m.ID, from, m.ToID, m.AE.Term, m.AE.PrevLogIndex, m.AE.PrevLogTerm, len(m.AE.Entries), m.AE.LeaderCommit)
		r.leaderMsg(m.AE.Term, m.AE.LeaderID, from, "AppendEntries")
	case KindIS:
		r.ev("send IS#%d %s->%s term=%d last=%d/%d off=%d n=%d done=%v", m.ID, from, m.ToID, m.IS.Term, m.IS.LastIncludedIndex, m.IS.LastIncludedTerm, m.IS.Offset, len(m.IS.Bytes), m.IS.Done)
		r.leaderMsg(m.IS.Term, m.IS.LeaderID, from, "InstallSnapshot")
		r.probe("installsnapshot-sent")
		if m.IS.Offset > 0 {
			r.probe("installsnapshot-second-chunk")
		}
	case KindRV:
		r.ev("send RV#%d %s->%s term=%d last=%d/%d pre=%v", m.ID, from, m.ToID, m.RV.Term, m.RV.LastLogIndex, m.RV.LastLogTerm, m.RV.Prevote)
	}
}

// C02(b): all AppendEntries/InstallSnapshot requests of a term name one leader.
func (r *Recorder) leaderMsg(term uint64, leaderID, sender, what string) {
	if who, ok := r.leaderByTermMsg[term]; ok && who != leaderID {
		r.violate(r.safetyProp("C02"), "two-leaders", "requests", "term %d: %s requests name leader %s (sent by %s) but earlier ones named %s", term, what, leaderID, sender, who)
	} else if !ok {
		r.leaderByTermMsg[term] = leaderID
	}
	_ = sender
}

func (r *Recorder) handlerBegin(inc *Incarnation, m *Msg) *HandlerCtx {
	r.Handlers++
	inc.inflight[m.ID] = m
	ctx := &HandlerCtx{Msg: m, Inc: inc, Task: r.c.Sim.Cur()}
	r.ctxByTask[ctx.Task] = ctx
	g := ""
	if m.Ghost {
		g = " (stale copy)"
	}
	r.ev("handle %s#%d at %s%s", kindName[m.Kind], m.ID, inc.Name(), g)
	return ctx
}

func (r *Recorder) handlerEnd(inc *Incarnation, m *Msg, ctx *HandlerCtx, err error) {
	delete(inc.inflight, m.ID)
	delete(r.ctxByTask, ctx.Task)
	if ctx.restoring {
		inc.restoring--
	}
	if err != nil {
		r.ev("handled %s#%d at %s err=%v", kindName[m.Kind], m.ID, inc.Name(), err)
		return
	}
	n := inc.Node
	switch m.Kind {
	case KindAE:
		r.ev("handled AE#%d at %s ok=%v term=%d idx=%d", m.ID, inc.Name(), m.AEr.Success, m.AEr.Term, m.AEr.Index)
		if inc.restoring > 0 && m.AEr.Success {
			// Signature of F2: AppendEntries accepted against the boundary that InstallSnapshot
			// already published, while the old log is still in place and the restore is running.
			r.setTaint(n, "F2")
		}
		if !m.AEr.Success && n.ID == r.c.scenZ && m.From.Node.ID == r.c.scenL && m.AEr.Term == m.AE.Term {
			r.probe("scenario-lagging-voter-rejected-new-leader")
			r.c.scenRejectAt = r.c.Sim.Now()
		}
		if m.AEr.Success && n.ID == r.c.scenZ && m.From.Node.ID == r.c.scenL {
			r.c.scenRejectAt = 0
		}
		r.replyTerm(inc, m.AEr.Term, "AppendEntries reply")
		r.checkAE(inc, m, ctx)
	case KindRV:
		r.ev("handled RV#%d at %s granted=%v term=%d", m.ID, inc.Name(), m.RVr.VoteGranted, m.RVr.Term)
		if n.ID == r.c.scenZ && r.c.scenRejectAt != 0 && r.c.Sim.Now()-r.c.scenRejectAt < int64(r.c.Cfg.LeaseMs)*1_000_000 {
			r.probe("scenario-vote-request-at-lagging-voter-within-lease-of-rejection")
		}
		r.replyTerm(inc, m.RVr.Term, "RequestVote reply")
		r.checkRV(inc, m, ctx)
	case KindIS:
		r.ev("handled IS#%d at %s term=%d written=%d", m.ID, inc.Name(), m.ISr.Term, m.ISr.BytesWritten)
		r.replyTerm(inc, m.ISr.Term, "InstallSnapshot reply")
	}
	_ = n
}

// C08(a) on replies.
func (r *Recorder) replyTerm(inc *Incarnation, term uint64, what string) {
	n := inc.Node
	if term < n.lastTermSeen {
		r.violate("C08", "term-regressed", "reply", "%s answered a %s with term %d after term %d was observed (%s)", inc.Name(), what, term, n.lastTermSeen, n.lastTermSrc)
	} else if term > n.lastTermSeen {
		n.lastTermSeen = term
		n.lastTermSrc = what + " of " + inc.Name()
	}
}

func (r *Recorder) replyDelivered(m *Msg) {
	if m.Kind == KindRV && m.RVr.VoteGranted && !m.RV.Prevote {
		g := r.granted[m.From]
		if g == nil {
			g = map[uint64]map[string]bool{}
			r.granted[m.From] = g
		}
		if g[m.RV.Term] == nil {
			g[m.RV.Term] = map[string]bool{}
		}
		g[m.RV.Term][m.ToID] = true
	}
	if m.Kind == KindAE {
		r.c.onAEReplyDelivered(m)
	}
}

// checkRV: C08 (b)(c)(d).
func (r *Recorder) checkRV(inc *Incarnation, m *Msg, ctx *HandlerCtx) {
	n := inc.Node
	req := m.RV
	r.c.window.voteRequestHandled(inc, m)
	if req.Prevote {
		// (d) a prevote never changes the voter's term or vote.
		if ctx.setStates > 0 {
			r.violate("C08", "prevote-wrote-state", "setstate", "%s persisted term/vote while handling a prevote request from %s", inc.Name(), req.CandidateID)
		}
		if ctx.sawStatus && ctx.termAfter != ctx.termBefore {
			r.violate("C08", "prevote-changed-term", "term", "%s term %d -> %d while handling a prevote from %s", inc.Name(), ctx.termBefore, ctx.termAfter, req.CandidateID)
		}
	}
	if !m.RVr.VoteGranted {
		return
	}
	if req.Prevote {
		r.probe("prevote-granted")
		return
	}
	// (c) only to a candidate whose log is at least as up to date (votes do not touch the log).
	last := n.Mirror.last()
	if req.LastLogTerm < last.Term || (req.LastLogTerm == last.Term && req.LastLogIndex < last.Index) {
		r.violate("C08", "vote-for-stale-log", fmt.Sprintf("prevote=%v", req.Prevote),
			"%s granted (prevote=%v) to %s whose log ends at %d/%d while its own ends at %d/%d",
			inc.Name(), req.Prevote, req.CandidateID, req.LastLogIndex, req.LastLogTerm, last.Index, last.Term)
	}
	r.probe("vote-granted")
	r.noteVote(n, req.Term, req.CandidateID, "RequestVote grant by "+inc.Name())
}

// noteVote: C08(b) at most one candidate per (node, term), across incarnations.
func (r *Recorder) noteVote(n *Node, term uint64, cand, src string) {
	byTerm := r.votes[n.ID]
	if byTerm == nil {
		byTerm = map[uint64]map[string]string{}
		r.votes[n.ID] = byTerm
	}
	set := byTerm[term]
	if set == nil {
		set = map[string]string{}
		byTerm[term] = set
	}
	if _, ok := set[cand]; ok {
		r.probe("vote-regranted-same-candidate")
		return
	}
	set[cand] = src
	if len(set) > 1 {
		var parts []string
		for c, s := range set {
			parts = append(parts, c+" ("+s+")")
		}
		sort.Strings(parts)
		r.violate("C08", "double-vote", "two-candidates", "%s voted in term %d for %s", n.ID, term, strings.Join(parts, " and "))
	}
}

// ------------------------------------------------------------------ storage events

func (r *Recorder) setStateBegin(inc *Incarnation, term uint64, vote string) {
	if ctx := r.ctxByTask[r.c.Sim.Cur()]; ctx != nil {
		ctx.setStates++
	}
}

func (r *Recorder) setStateDone(inc *Incarnation, term uint64, vote string) {
	r.ev("setstate %s term=%d vote=%q", inc.Name(), term, vote)
	if vote != "" {
		r.noteVote(inc.Node, term, vote, "persisted by "+inc.Name())
	}
}

func (r *Recorder) stateLoaded(inc *Incarnation, term uint64, vote string) {
	r.ev("loadstate %s term=%d vote=%q", inc.Name(), term, vote)
	n := inc.Node
	if term < n.lastTermSeen {
		r.violate("C08", "term-regressed", "reload", "%s reloaded term %d from disk after term %d was observed (%s)", inc.Name(), term, n.lastTermSeen, n.lastTermSrc)
	}
}

func (r *Recorder) logReplayed(inc *Incarnation, lg raft.Log) {
	// Rebuild the mirror from what the real log recovered.
	last := lg.LastIndex()
	first := last
	for first > 0 && lg.Contains(first) {
		first--
	}
	// first is now the boundary (placeholder) index: Contains(first) is false.
	old := inc.Node.Mirror
	m := &Mirror{Entries: make([]MEntry, 0, last-first+1)}
	ph := MEntry{Index: first, Placeholder: true}
	if e, ok := old.get(first); ok {
		ph.Term = e.Term
	}
	if last == first {
		ph.Term = lg.LastTerm()
	}
	m.Entries = append(m.Entries, ph)
	for i := first + 1; i <= last; i++ {
		e, err := lg.GetEntry(i)
		if err != nil {
			r.violate("C12", "replay-hole", "getentry", "%s: reopened log has no entry %d although LastIndex is %d: %v", inc.Name(), i, last, err)
			break
		}
		m.Entries = append(m.Entries, mentry(e))
	}
	r.ev("replayed %s first=%d last=%d", inc.Name(), first, last)
	if last > old.last().Index && old.first() == first {
		m.Unsynced = int(last-old.last().Index) + old.Unsynced
	} else if last <= old.last().Index && old.Unsynced > 0 {
		// Still the same never-synced tail (or part of it).
		if lost := int(old.last().Index - last); lost < old.Unsynced {
			m.Unsynced = old.Unsynced - lost
		}
	}
	r.c.onLogReplayed(inc, old, m)
	inc.Node.Mirror = m
}


func (r *Recorder) logAppended(inc *Incarnation, es []*raft.LogEntry) {
	if len(es) == 0 {
		return
	}
	m := inc.Node.Mirror
	for _, e := range es {
		me := mentry(e)
		if e.EntryType == raft.ConfigurationEntry && inc.Tr != nil {
			if conf, err := inc.Tr.DecodeConfiguration(e.Data); err == nil {
				r.confSeen[confKey{e.Index, e.Term}] = conf
			}
			r.confAppended(inc, e)
		}
		if me.Index != m.last().Index+1 {
			r.violate(r.safetyProp("C06"), "append-gap", "index", "%s appended index %d after last index %d", inc.Name(), me.Index, m.last().Index)
		}
		m.Entries = append(m.Entries, me)
	}
	m.Unsynced = 0 // a returned append fsynced the whole file
	if ctx := r.ctxByTask[r.c.Sim.Cur()]; ctx != nil && ctx.Msg.Kind == KindAE && inc.restoring > 0 {
		// Signature of F2, taken at the append (the checks below already see its consequence):
		// entries accepted against the boundary that InstallSnapshot published before releasing
		// the lock, while the stale log is still in place.
		r.setTaint(inc.Node, "F2")
	}
	r.ev("append %s %d..%d term=%d", inc.Name(), es[0].Index, es[len(es)-1].Index, es[len(es)-1].Term)
	if ctx := r.ctxByTask[r.c.Sim.Cur()]; ctx != nil {
		ctx.appended += len(es)
		ctx.logCalls = append(ctx.logCalls, fmt.Sprintf("append %d..%d", es[0].Index, es[len(es)-1].Index))
	}
	r.checkLogMatching(inc, es[len(es)-1].Index)
}

func (r *Recorder) logTruncated(inc *Incarnation, index uint64) {
	m := inc.Node.Mirror
	r.ev("truncate %s from=%d (last=%d)", inc.Name(), index, m.last().Index)
	r.probe("log-truncated")
	// Never remove a committed entry (C06; C07 if the node is the leader).
	for i := index; i <= m.last().Index; i++ {
		e, ok := m.get(i)
		if !ok {
			continue
		}
		if reg, ok := r.Reg[i]; ok && reg.Term == e.Term {
			prop := "C06"
			if inc.haveStatus && inc.lastStatus.State == raft.Leader {
				prop = "C07"
			}
			r.violate(r.safetyProp(prop), "truncated-committed", "truncate", "%s truncated committed index %d (term %d, committed by %s)", inc.Name(), i, e.Term, reg.Src)
			break
		}
	}
	// Truncation only at the first index where a request entry conflicts with the log.
	if ctx := r.ctxByTask[r.c.Sim.Cur()]; ctx != nil && ctx.Msg.Kind == KindAE {
		ctx.truncatedAt = append(ctx.truncatedAt, index)
		ctx.logCalls = append(ctx.logCalls, fmt.Sprintf("truncate %d", index))
		conflictAt := uint64(0)
		for _, e := range ctx.Msg.AE.Entries {
			have, ok := m.get(e.Index)
			if ok && !have.Placeholder && have.Term != e.Term {
				conflictAt = e.Index
				break
			}
		}
		if conflictAt == 0 {
			r.violate(r.safetyProp("C06"), "truncate-without-conflict", "no-conflict", "%s truncated its log at %d while handling AE#%d (prev=%d, %d entries) none of whose entries conflicts with the log",
				inc.Name(), index, ctx.Msg.ID, ctx.Msg.AE.PrevLogIndex, len(ctx.Msg.AE.Entries))
		} else if conflictAt != index {
			r.violate(r.safetyProp("C06"), "truncate-without-conflict", "wrong-index", "%s truncated its log at %d while handling AE#%d whose first conflicting entry is at %d",
				inc.Name(), index, ctx.Msg.ID, conflictAt)
		}
	} else {
		r.violate(r.safetyProp("C06"), "truncate-without-conflict", "no-request", "%s truncated its log at %d outside the handling of an AppendEntries request", inc.Name(), index)
	}
	var removed []uint64
	for i := index; i <= m.last().Index; i++ {
		if _, ok := r.ackedAt[i]; ok {
			removed = append(removed, i)
		}
	}
	if index > m.first() && index <= m.last().Index {
		m.Entries = m.Entries[:index-m.first()]
	}
	// C04 "never lost": an acknowledged operation stays on the disks of a majority at every
	// instant, not only at the moment of its acknowledgement (a crash may come at any time).
	for _, i := range removed {
		if op := r.ackedAt[i]; op != nil {
			r.c.checkOnMajorityDisk(op.LogIndex, op.LogTerm, hashBytes(op.Payload), fmt.Sprintf("truncation of %s's log at %d (op%d was acknowledged before)", inc.Name(), index, op.ID))
		}
	}
}

func (r *Recorder) logCompacted(inc *Incarnation, index uint64) {
	m := inc.Node.Mirror
	r.ev("compact %s upto=%d (first=%d last=%d)", inc.Name(), index, m.first(), m.last().Index)
	r.probe("log-compacted")
	if index > m.first() && index <= m.last().Index {
		k := index - m.first()
		ne := append([]MEntry(nil), m.Entries[k:]...)
		ne[0].Placeholder = true
		m.Entries = ne
	}
	if ctx := r.ctxByTask[r.c.Sim.Cur()]; ctx != nil {
		ctx.compacted = true
	}
	r.c.onLogCompacted(inc, index)
}

func (r *Recorder) logDiscarded(inc *Incarnation, index, term uint64) {
	m := inc.Node.Mirror
	r.ev("discard %s to=%d/%d (first=%d last=%d)", inc.Name(), index, term, m.first(), m.last().Index)
	r.probe("log-discarded")
	// C11(a): no committed entry beyond the snapshot's last index may disappear.
	for i := index + 1; i <= m.last().Index; i++ {
		e, ok := m.get(i)
		if !ok {
			continue
		}
		if reg, ok := r.Reg[i]; ok && reg.Term == e.Term {
			r.violate("C11", "discarded-committed", r.tainted(inc.Node, "discard", "F2", "F3"), "%s discarded its log up to %d but held committed index %d (term %d, committed by %s)", inc.Name(), index, i, e.Term, reg.Src)
			break
		}
	}
	inc.Node.Mirror = &Mirror{Entries: []MEntry{{Index: index, Term: term, Placeholder: true}}}
	if ctx := r.ctxByTask[r.c.Sim.Cur()]; ctx != nil {
		ctx.discarded = true
	}
}

// checkLogMatching: C06(a) after node X's log grew up to index hi.
func (r *Recorder) checkLogMatching(inc *Incarnation, hi uint64) {
	a := inc.Node.Mirror
	ea, ok := a.get(hi)
	if !ok {
		return
	}
	for _, o := range r.c.Nodes {
		if o == inc.Node {
			continue
		}
		b := o.Mirror
		eb, ok := b.get(hi)
		if !ok || eb.Term != ea.Term {
			continue
		}
		lo := a.first()
		if b.first() > lo {
			lo = b.first()
		}
		for i := hi; i > lo; i-- {
			xa, _ := a.get(i)
			xb, _ := b.get(i)
			if !xa.same(xb) {
				cause := "prefix-differs"
				if inc.Node.taint["F2"] || o.taint["F2"] {
					cause += "+F2"
				}
				r.violate(r.safetyProp("C06"), "log-matching", cause,
					"%s and %s both hold index %d term %d, but differ at index %d: %d/%x vs %d/%x",
					inc.Node.ID, o.ID, hi, ea.Term, i, xa.Term, xa.Hash, xb.Term, xb.Hash)
				break
			}
		}
	}
}

// checkAE: C06(b)(c) for one handled AppendEntries request.
func (r *Recorder) checkAE(inc *Incarnation, m *Msg, ctx *HandlerCtx) {
	req := m.AE
	resp := m.AEr
	mir := inc.Node.Mirror
	if !resp.Success {
		if len(ctx.logCalls) > 0 {
			r.violate(r.safetyProp("C06"), "rejected-but-mutated", "log", "%s rejected AE#%d but changed its log: %v", inc.Name(), m.ID, ctx.logCalls)
		}
	} else {
		for _, e := range req.Entries {
			have, ok := mir.get(e.Index)
			if !ok || !have.same(mentry(e)) {
				if ok && have.Placeholder {
					continue
				}
				if !ok && e.Index <= mir.first() {
					continue // below the compaction boundary: covered by the snapshot
				}
				r.violate(r.safetyProp("C06"), "accepted-but-differs", "log", "%s accepted AE#%d but index %d is %v/%d (have=%v), request has term %d",
					inc.Name(), m.ID, e.Index, have.Term, have.Hash, ok, e.Term)
				break
			}
		}
		if len(req.Entries) > 0 {
			r.probe("ae-accepted-with-entries")
		}
	}
	if len(ctx.truncatedAt) > 0 {
		r.probe("ae-truncated-follower")
	}
	// (c) commit index rule.
	if ctx.sawStatus {
		bound := ctx.commitBefore
		if resp.Success {
			v := req.PrevLogIndex + uint64(len(req.Entries))
			if req.LeaderCommit < v {
				v = req.LeaderCommit
			}
			if v > bound {
				bound = v
			}
		}
		if ctx.commitAfter > bound {
			r.violate(r.safetyProp("C06"), "commit-past-verified", "ae", "%s handling AE#%d (prev=%d n=%d leaderCommit=%d ok=%v) moved commit %d -> %d, beyond the verified prefix %d",
				inc.Name(), m.ID, req.PrevLogIndex, len(req.Entries), req.LeaderCommit, resp.Success, ctx.commitBefore, ctx.commitAfter, bound)
		}
	}
}
