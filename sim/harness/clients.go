package harness

import (
	"errors"
	"fmt"
	"sort"
	"time"

	"github.com/jmsadair/raft"
	"github.com/jmsadair/raft/xsim/simrt"
	"github.com/jmsadair/raft/xsim/simtime"
)

// ClientOp is one client operation in the recorded history.
type ClientOp struct {
	ID     uint64
	Client int
	Type   raft.OperationType
	Target string // node id
	Inc    *Incarnation

	Payload []byte

	InvokeSeq uint64
	InvokeNs  int64
	SubmittedNs int64 // when SubmitOperation returned the future (0: it has not returned)
	// SubmitSeq: SubmitOperation returned (the future exists).
	Returned  bool
	ReturnSeq uint64
	ReturnNs  int64

	OK      bool
	Err     error
	ErrKind string
	// On success.
	LogIndex uint64
	LogTerm  uint64
	RespBytesOK bool
	Result   ReadResult
	ResultOK bool // ApplicationResponse had the model's type

	TimeoutMs int64
	// For lease reads: the serving node's local clock at the return, and its leader term.
	ServeTerm uint64
}

func errKind(err error) string {
	switch {
	case err == nil:
		return ""
	case errors.Is(err, raft.ErrNotLeader):
		return "not-leader"
	case errors.Is(err, raft.ErrTimeout):
		return "timeout"
	case errors.Is(err, raft.ErrInvalidLease):
		return "invalid-lease"
	}
	return "other:" + err.Error()
}

// submit issues one operation against inc as a task of inc's process.
func (c *Cluster) submit(client int, inc *Incarnation, typ raft.OperationType, timeoutMs int64) *ClientOp {
	r := c.Rec
	op := &ClientOp{
		ID: uint64(len(r.Ops) + 1), Client: client, Type: typ, Target: inc.Node.ID, Inc: inc,
		TimeoutMs: timeoutMs,
	}
	size := c.Cfg.PayloadBytes
	if size > 10 {
		size = 10 + c.cliRng.Intn(size-9)
	}
	op.Payload = makePayload(op.ID, size)
	r.Ops = append(r.Ops, op)
	c.Stats.OpsInvoked++
	c.Sim.GoProc(inc.Proc, fmt.Sprintf("%s/op%d", inc.Name(), op.ID), func() {
		r.ev("invoke op%d c%d type=%d at %s", op.ID, client, typ, inc.Name())
		op.InvokeSeq = r.seq
		op.InvokeNs = c.Sim.Now()
		fut := inc.Raft.SubmitOperation(op.Payload, typ, time.Duration(timeoutMs)*time.Millisecond)
		if simrt.Dead() {
			return
		}
		op.SubmittedNs = c.Sim.Now()
		res := fut.Await()
		if simrt.Dead() {
			return
		}
		op.Returned = true
		op.ReturnNs = c.Sim.Now()
		if err := res.Error(); err != nil {
			op.Err = err
			op.ErrKind = errKind(err)
			switch op.ErrKind {
			case "timeout":
				c.Stats.OpsTimeout++
			default:
				c.Stats.OpsFailed++
			}
			r.ev("return op%d err=%s", op.ID, op.ErrKind)
			op.ReturnSeq = r.seq
			r.onOpReturned(op)
			return
		}
		resp := res.Success()
		op.OK = true
		op.LogIndex = resp.Operation.LogIndex
		op.LogTerm = resp.Operation.LogTerm
		op.RespBytesOK = string(resp.Operation.Bytes) == string(op.Payload)
		if rr, ok := resp.ApplicationResponse.(ReadResult); ok {
			op.Result = rr
			op.ResultOK = true
		}
		if inc.haveStatus {
			op.ServeTerm = inc.lastStatus.Term
		}
		c.Stats.OpsOK++
		switch typ {
		case raft.Replicated:
			c.Stats.WritesOK++
		case raft.LinearizableReadOnly:
			c.Stats.LinReadsOK++
		case raft.LeaseBasedReadOnly:
			c.Stats.LeaseReadsOK++
		}
		r.ev("return op%d ok idx=%d term=%d count=%d chain=%x", op.ID, op.LogIndex, op.LogTerm, op.Result.Count, op.Result.Chain)
		op.ReturnSeq = r.seq
		r.onOpReturned(op)
	})
	return op
}

// clientLoop is one simulated client.
func (c *Cluster) clientLoop(id int, untilNs int64) {
	cfg := c.Cfg
	rng := simrt.NewRand(cfg.Seed, fmt.Sprintf("client%d", id))
	for {
		think := rng.Range(0, 2*int64(cfg.OpIntervalMs)*1_000_000)
		simtime.Sleep(simtime.Duration(think + 1))
		if c.Sim.Now() >= untilNs || c.healing {
			return
		}
		if cfg.MaxOps > 0 && len(c.Rec.Ops) >= cfg.MaxOps {
			return
		}
		up := c.upNodes()
		if len(up) == 0 {
			continue
		}
		var target *Node
		leader := c.believedLeader()
		if rng.Intn(1000) >= cfg.AnyNodePm {
			target = leader
		}
		if target == nil {
			if leader == nil && rng.Intn(4) != 0 {
				// Nobody leads: do not burn the operation budget on certain rejections.
				simtime.Sleep(simtime.Duration(int64(cfg.HeartbeatMs) * 1_000_000))
				continue
			}
			target = up[rng.Intn(len(up))]
		}
		typ := raft.Replicated
		x := rng.Intn(1000)
		switch {
		case x < cfg.WritePm:
			typ = raft.Replicated
		case x < cfg.WritePm+cfg.LinReadPm:
			typ = raft.LinearizableReadOnly
		case x < cfg.WritePm+cfg.LinReadPm+cfg.LeaseReadPm:
			typ = raft.LeaseBasedReadOnly
		}
		to := int64(cfg.OpTimeoutMs)
		if to > 4 {
			to = rng.Range(to/4, to)
		}
		c.submit(id, target.Inc, typ, to)
	}
}

// ------------------------------------------------------------------ history oracles

// onOpReturned runs the per-operation checks that need no global view.
func (r *Recorder) onOpReturned(op *ClientOp) {
	if !op.OK {
		// C17(c): a lease read fails only with invalid-lease, not-leader or timeout.
		if op.Type == raft.LeaseBasedReadOnly {
			switch op.ErrKind {
			case "invalid-lease", "not-leader", "timeout":
			default:
				r.violate("C17", "lease-read-error", "unexpected-error", "op%d lease read failed with %v", op.ID, op.Err)
			}
		}
		return
	}
	if op.Type == raft.LeaseBasedReadOnly && r.c.Cfg.DelayBoundMs > 0 && !r.c.Cfg.Membership {
		// C17(b): a lease is only ever renewed when a heartbeat round is answered, and only
		// voters count: a lease read served between invoke and return needs a reply from a
		// voter delivered to the serving node later than (invoke - lease duration).
		voters := 0
		for range r.c.bootVoters {
			voters++
		}
		if voters > 1 {
			inc := op.Inc
			leaseNs := int64(r.c.Cfg.LeaseMs) * 1_000_000
			r.probe("lease-read-checked-against-voter-reply")
			// C17(d): leases and terms of leadership never overlap. Under L + D < E a voter that
			// answered the round which renewed the lease refuses its vote until the lease has
			// run out, so no leader of a later term exists before the lease ends: a lease read
			// invoked after a leader of a later term was already observed is served on a lease
			// that must have lapsed (the new leader may acknowledge writes at any moment).
			if inc.haveStatus {
				for _, ls := range r.leaderFirstSeen {
					if ls.Term > inc.lastStatus.Term && ls.Ns < op.InvokeNs {
						r.violate("C17", "lease-read-under-newer-leader", "lease-outlives-term", "op%d lease read invoked at %.3fms and served by %s in term %d, but %s had become leader of term %d at %.3fms",
							op.ID, float64(op.InvokeNs)/1e6, inc.Name(), inc.lastStatus.Term, ls.Inc.Name(), ls.Term, float64(ls.Ns)/1e6)
						break
					}
				}
			}
			if inc.lastVoterReplyNs == 0 || inc.lastVoterReplyNs <= op.InvokeNs-leaseNs {
				r.violate("C17", "lease-not-backed-by-voter", "no-recent-voter-reply", "op%d lease read served by %s between %.3fms and %.3fms, but the last AppendEntries reply from a voter reached it at %.3fms (lease duration %dms)",
					op.ID, inc.Name(), float64(op.InvokeNs)/1e6, float64(op.ReturnNs)/1e6, float64(inc.lastVoterReplyNs)/1e6, r.c.Cfg.LeaseMs)
			}
		}
	}
	if !op.ResultOK {
		r.violate("C03", "future-result", "bad-response-type", "op%d succeeded but the application response is not the state machine's result", op.ID)
		return
	}
	if op.Type == raft.Replicated {
		if !op.RespBytesOK {
			r.violate("C03", "future-bytes", "bytes-differ", "op%d: the successful future does not return the submitted bytes", op.ID)
		}
		reg, ok := r.Reg[op.LogIndex]
		if !ok || !reg.Applied {
			r.violate("C03", "future-position", "not-applied-there", "op%d acknowledged at index %d term %d, but nothing was applied at that index", op.ID, op.LogIndex, op.LogTerm)
		} else if reg.OpID != op.ID || reg.Term != op.LogTerm {
			r.violate("C03", "future-position", "other-op-there", "op%d acknowledged at index %d term %d, but that index holds op%d term %d", op.ID, op.LogIndex, op.LogTerm, reg.OpID, reg.Term)
		}
		if op.Result.Last != op.LogIndex {
			r.violate("C03", "future-result", "result-of-other-apply", "op%d acknowledged at index %d but the result is that of applying index %d", op.ID, op.LogIndex, op.Result.Last)
		}
		r.c.onWriteAcked(op)
	}
}

// authoritative builds A: the applied operations by index, with prefix counts and chain hashes.
type authSeq struct {
	idx   []uint64          // indices of operation entries, ascending
	pos   map[uint64]int    // index -> position in idx (0-based)
	chain []uint64          // chain hash after idx[i]
	byOp  map[uint64][]uint64 // op id -> indices where it was applied
	gaps  bool
}

func (r *Recorder) buildAuth() *authSeq {
	a := &authSeq{pos: map[uint64]int{}, byOp: map[uint64][]uint64{}}
	for i, e := range r.Reg {
		if e.Full && e.Type == raft.OperationEntry && e.Applied {
			a.idx = append(a.idx, i)
		}
	}
	sort.Slice(a.idx, func(i, j int) bool { return a.idx[i] < a.idx[j] })
	h := chainInit
	for k, i := range a.idx {
		e := r.Reg[i]
		a.pos[i] = k
		h = chainStep(h, AppliedOp{Index: i, Term: e.Term, Hash: e.Hash})
		a.chain = append(a.chain, h)
		a.byOp[e.OpID] = append(a.byOp[e.OpID], i)
	}
	return a
}

// checkHistory runs the end-of-run history checks (C03, C05, C17a).
func (r *Recorder) checkHistory() {
	a := r.buildAuth()
	// C03(1): every submission is applied at most once.
	ids := make([]uint64, 0, len(a.byOp))
	for id := range a.byOp {
		ids = append(ids, id)
	}
	sort.Slice(ids, func(i, j int) bool { return ids[i] < ids[j] })
	for _, id := range ids {
		if id != 0 && len(a.byOp[id]) > 1 {
			r.violate("C03", "applied-twice", "two-indices", "op%d was applied at indices %v", id, a.byOp[id])
		}
	}
	// Known op ids only (the API fuzzer submits payloads of its own).
	for _, id := range ids {
		if r.c.Cfg.ApiFuzz && (id == 0 || id >= 1<<40) {
			continue
		}
		if id == 0 || id > uint64(len(r.Ops)) {
			r.violate("C03", "phantom-op", "unknown-id", "an operation that no client submitted (id %d) was applied at %v", id, a.byOp[id])
		} else if op := r.Ops[id-1]; op.Type != raft.Replicated {
			r.violate("C03", "phantom-op", "read-was-replicated", "op%d was submitted as a read but was applied as a replicated operation", id)
		} else if r.Reg[a.byOp[id][0]].Hash != hashBytes(op.Payload) {
			r.violate("C03", "phantom-op", "bytes-differ", "op%d was applied with different bytes than submitted", id)
		}
	}
	// Successful writes: result = model result for the prefix of A ending at the op.
	var okWrites []*ClientOp
	for _, op := range r.Ops {
		if !op.OK || op.Type != raft.Replicated || !op.ResultOK {
			continue
		}
		k, ok := a.pos[op.LogIndex]
		if !ok {
			continue // reported by onOpReturned
		}
		if op.Result.Count != uint64(k+1) || op.Result.Chain != a.chain[k] {
			r.violate("C03", "future-result", "not-prefix-result", "op%d at index %d: result (count=%d chain=%x) is not the model's result for the applied prefix (count=%d chain=%x)",
				op.ID, op.LogIndex, op.Result.Count, op.Result.Chain, k+1, a.chain[k])
		}
		okWrites = append(okWrites, op)
	}
	// C03(3): real-time order. For every applied op Y: pos(Y) > max pos(X) over X acknowledged before Y was invoked.
	sort.Slice(okWrites, func(i, j int) bool { return okWrites[i].ReturnSeq < okWrites[j].ReturnSeq })
	type inv struct {
		op  *ClientOp
		pos int
	}
	var applied []inv
	for _, op := range r.Ops {
		if op.Type != raft.Replicated || op.InvokeSeq == 0 {
			continue
		}
		idxs := a.byOp[op.ID]
		if len(idxs) == 0 {
			continue
		}
		applied = append(applied, inv{op, a.pos[idxs[0]]})
	}
	sort.Slice(applied, func(i, j int) bool { return applied[i].op.InvokeSeq < applied[j].op.InvokeSeq })
	maxPos, maxOp := -1, (*ClientOp)(nil)
	wi := 0
	for _, y := range applied {
		for wi < len(okWrites) && okWrites[wi].ReturnSeq < y.op.InvokeSeq {
			if p, ok := a.pos[okWrites[wi].LogIndex]; ok && p > maxPos {
				maxPos, maxOp = p, okWrites[wi]
			}
			wi++
		}
		if maxOp != nil && y.pos <= maxPos && y.op != maxOp {
			r.violate("C03", "real-time-order", "applied-before-completed", "op%d (invoked at seq %d, applied at index %d) is ordered before op%d (acknowledged at seq %d, index %d) which completed before it was invoked",
				y.op.ID, y.op.InvokeSeq, a.idx[y.pos], maxOp.ID, maxOp.ReturnSeq, maxOp.LogIndex)
		}
	}
	// Reads.
	r.checkReads(a, okWrites, raft.LinearizableReadOnly, "C05")
	r.checkReads(a, okWrites, raft.LeaseBasedReadOnly, "C17")
}

// checkReads: a successful read returns a prefix of A that contains every write
// acknowledged before the read was invoked; non-overlapping reads never go backwards.
func (r *Recorder) checkReads(a *authSeq, okWrites []*ClientOp, typ raft.OperationType, prop string) {
	var reads []*ClientOp
	for _, op := range r.Ops {
		if op.Type == typ && op.OK && op.ResultOK {
			reads = append(reads, op)
		}
	}
	if len(reads) == 0 {
		return
	}
	sort.Slice(reads, func(i, j int) bool { return reads[i].InvokeSeq < reads[j].InvokeSeq })
	wi := 0
	needCount, needOp := uint64(0), (*ClientOp)(nil)
	for _, rd := range reads {
		k := rd.Result.Count
		// (a) prefix of A.
		if k > uint64(len(a.idx)) {
			r.violate(prop, "read-not-prefix", "longer-than-applied", "op%d read saw %d operations but only %d were ever applied", rd.ID, k, len(a.idx))
			continue
		}
		want := chainInit
		if k > 0 {
			want = a.chain[k-1]
		}
		if rd.Result.Chain != want {
			r.violate(prop, "read-not-prefix", "chain-differs", "op%d read saw %d operations with chain %x; the applied prefix of that length has chain %x", rd.ID, k, rd.Result.Chain, want)
			continue
		}
		// (b) contains every write acknowledged before the read was invoked.
		for wi < len(okWrites) && okWrites[wi].ReturnSeq < rd.InvokeSeq {
			if p, ok := a.pos[okWrites[wi].LogIndex]; ok && uint64(p+1) > needCount {
				needCount, needOp = uint64(p+1), okWrites[wi]
			}
			wi++
		}
		if k < needCount {
			r.violate(prop, "stale-read", "missed-acknowledged-write", "op%d read at %s (invoked seq %d) saw %d operations, but op%d (index %d, position %d) was acknowledged at seq %d before the read was invoked",
				rd.ID, rd.Target, rd.InvokeSeq, k, needOp.ID, needOp.LogIndex, needCount, needOp.ReturnSeq)
		}
	}
	// (c) monotone for non-overlapping reads.
	if prop == "C05" {
		byRet := append([]*ClientOp(nil), reads...)
		sort.Slice(byRet, func(i, j int) bool { return byRet[i].ReturnSeq < byRet[j].ReturnSeq })
		ri := 0
		maxK, maxRd := uint64(0), (*ClientOp)(nil)
		for _, rd := range reads {
			for ri < len(byRet) && byRet[ri].ReturnSeq < rd.InvokeSeq {
				if byRet[ri].Result.Count > maxK {
					maxK, maxRd = byRet[ri].Result.Count, byRet[ri]
				}
				ri++
			}
			if maxRd != nil && rd.Result.Count < maxK {
				r.violate(prop, "read-went-backwards", "non-monotone", "op%d read saw %d operations after op%d (returned before it was invoked) saw %d", rd.ID, rd.Result.Count, maxRd.ID, maxK)
			}
		}
	}
}
