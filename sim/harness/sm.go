package harness

import (
	"bytes"
	"encoding/binary"
	"errors"
	"fmt"
	"io"

	"github.com/jmsadair/raft"
	"github.com/jmsadair/raft/xsim/simrt"
	"github.com/jmsadair/raft/xsim/simtime"
)

// AppliedOp is one replicated operation as a state machine saw it.
type AppliedOp struct {
	Index uint64
	Term  uint64
	OpID  uint64 // decoded from the payload (0 if undecodable)
	Hash  uint64 // hash of the payload bytes
}

// ReadResult is what the model state machine answers (for writes and reads).
type ReadResult struct {
	Count uint64 // number of operations applied
	Chain uint64 // chain hash over (index, term, payload hash) of all applied operations
	Last  uint64 // log index of the last applied operation
}

// ModelSM is the harness state machine: the reference model turned inside out.
// Its state is the list of operations it has applied.
type ModelSM struct {
	inc *Incarnation
	c   *Cluster

	Ops   []AppliedOp
	chain uint64

	// Since the last Restore (or creation): for the strictly-increasing check.
	lastIndexSinceRestore uint64
	Restores              int
	busy                  int // calls in flight (for the "install racing apply" probe)
	applying              int // replicated Apply calls in flight
}

const chainInit = uint64(1469598103934665603)

func chainStep(h uint64, op AppliedOp) uint64 {
	for _, v := range [3]uint64{op.Index, op.Term, op.Hash} {
		for i := 0; i < 8; i++ {
			h ^= (v >> (8 * uint(i))) & 0xff
			h *= 1099511628211
		}
	}
	return h
}

func hashBytes(b []byte) uint64 {
	h := uint64(1469598103934665603)
	for _, c := range b {
		h ^= uint64(c)
		h *= 1099511628211
	}
	return h
}

func newModelSM(c *Cluster, inc *Incarnation) *ModelSM {
	return &ModelSM{c: c, inc: inc, chain: chainInit}
}

// Payload format: "op" + 8 bytes big-endian op id + filler.
func makePayload(id uint64, size int) []byte {
	if size < 10 {
		size = 10
	}
	b := make([]byte, size)
	b[0], b[1] = 'o', 'p'
	binary.BigEndian.PutUint64(b[2:], id)
	for i := 10; i < size; i++ {
		b[i] = byte(id*31 + uint64(i))
	}
	return b
}

func payloadID(b []byte) uint64 {
	if len(b) < 10 || b[0] != 'o' || b[1] != 'p' {
		return 0
	}
	return binary.BigEndian.Uint64(b[2:])
}

func (m *ModelSM) pause(us int) {
	if us <= 0 {
		simrt.Yield()
		return
	}
	d := m.c.smRng.Range(0, int64(us)) * 1000
	if d == 0 {
		simrt.Yield()
		return
	}
	simtime.Sleep(simtime.Duration(d))
}

// Apply implements raft.StateMachine.
func (m *ModelSM) Apply(op *raft.Operation) interface{} {
	if simrt.Dead() {
		return nil
	}
	m.busy++
	defer func() { m.busy-- }()
	if op.OperationType != raft.Replicated {
		// Reads take a consistent look at the state at one instant.
		m.pause(m.c.Cfg.ApplyDelayUs / 4)
		res := ReadResult{Count: uint64(len(m.Ops)), Chain: m.chain}
		if len(m.Ops) > 0 {
			res.Last = m.Ops[len(m.Ops)-1].Index
		}
		return res
	}
	m.applying++
	m.pause(m.c.Cfg.ApplyDelayUs)
	m.applying--
	if simrt.Dead() {
		return nil
	}
	a := AppliedOp{Index: op.LogIndex, Term: op.LogTerm, OpID: payloadID(op.Bytes), Hash: hashBytes(op.Bytes)}
	m.c.Rec.onApply(m.inc, m, a)
	m.Ops = append(m.Ops, a)
	m.chain = chainStep(m.chain, a)
	m.lastIndexSinceRestore = a.Index
	return ReadResult{Count: uint64(len(m.Ops)), Chain: m.chain, Last: a.Index}
}

// Snapshot format: "SNAP" | u32 count | count*(index,term,opid,hash) | u32 filler | filler bytes.
func (m *ModelSM) encode() []byte {
	var b bytes.Buffer
	b.WriteString("SNAP")
	var u [8]byte
	binary.BigEndian.PutUint32(u[:4], uint32(len(m.Ops)))
	b.Write(u[:4])
	for _, o := range m.Ops {
		for _, v := range [4]uint64{o.Index, o.Term, o.OpID, o.Hash} {
			binary.BigEndian.PutUint64(u[:], v)
			b.Write(u[:])
		}
	}
	f := m.c.Cfg.FillerBytes
	binary.BigEndian.PutUint32(u[:4], uint32(f))
	b.Write(u[:4])
	for i := 0; i < f; i++ {
		b.WriteByte(byte(i*7 + len(m.Ops)))
	}
	return b.Bytes()
}

func decodeSnapshot(data []byte) ([]AppliedOp, error) {
	if len(data) < 8 || string(data[:4]) != "SNAP" {
		return nil, errors.New("model snapshot: bad header")
	}
	n := int(binary.BigEndian.Uint32(data[4:8]))
	p := 8
	if len(data) < p+n*32+4 {
		return nil, fmt.Errorf("model snapshot: truncated (%d bytes for %d ops)", len(data), n)
	}
	ops := make([]AppliedOp, n)
	for i := 0; i < n; i++ {
		ops[i] = AppliedOp{
			Index: binary.BigEndian.Uint64(data[p:]),
			Term:  binary.BigEndian.Uint64(data[p+8:]),
			OpID:  binary.BigEndian.Uint64(data[p+16:]),
			Hash:  binary.BigEndian.Uint64(data[p+24:]),
		}
		p += 32
	}
	f := int(binary.BigEndian.Uint32(data[p:]))
	p += 4
	if len(data) != p+f {
		return nil, fmt.Errorf("model snapshot: length %d, expected %d", len(data), p+f)
	}
	for i := 0; i < f; i++ {
		if data[p+i] != byte(i*7+n) {
			return nil, fmt.Errorf("model snapshot: filler corrupt at %d", i)
		}
	}
	return ops, nil
}

// Snapshot implements raft.StateMachine. The state is cut at one instant inside
// the call (after an initial scheduling point, as a state machine that locks
// itself would), then written in pieces with scheduling points between them.
func (m *ModelSM) Snapshot(w io.Writer) error {
	if simrt.Dead() {
		return errors.New("dead")
	}
	m.busy++
	defer func() { m.busy-- }()
	m.pause(m.c.Cfg.SnapDelayUs)
	data := m.encode()
	m.c.Rec.onSMSnapshot(m.inc, m, data)
	const piece = 8 * 1024
	for off := 0; off < len(data); off += piece {
		end := off + piece
		if end > len(data) {
			end = len(data)
		}
		if _, err := w.Write(data[off:end]); err != nil {
			return err
		}
		if end < len(data) {
			m.pause(m.c.Cfg.SnapDelayUs / 4)
		}
		if simrt.Dead() {
			return errors.New("dead")
		}
	}
	return nil
}

// Restore implements raft.StateMachine.
func (m *ModelSM) Restore(r io.Reader) error {
	if simrt.Dead() {
		return errors.New("dead")
	}
	m.busy++
	defer func() { m.busy-- }()
	data, err := io.ReadAll(r)
	if err != nil {
		return err
	}
	m.pause(m.c.Cfg.RestoreDelayUs)
	if simrt.Dead() {
		return errors.New("dead")
	}
	ops, err := decodeSnapshot(data)
	if err != nil {
		m.c.Rec.onBadSnapshot(m.inc, err, len(data))
		return err
	}
	m.c.Rec.onRestore(m.inc, m, ops, data)
	m.Ops = ops
	m.chain = chainInit
	for _, o := range ops {
		m.chain = chainStep(m.chain, o)
	}
	m.lastIndexSinceRestore = 0
	if len(ops) > 0 {
		m.lastIndexSinceRestore = ops[len(ops)-1].Index
	}
	m.Restores++
	return nil
}

// NeedSnapshot implements raft.StateMachine.
func (m *ModelSM) NeedSnapshot(logSize int) bool {
	t := m.c.Cfg.SnapThreshold
	return t > 0 && logSize >= t
}
