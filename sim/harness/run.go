package harness

import (
	"fmt"
	"os"
	"sort"
	"strings"

	"github.com/jmsadair/raft"
	"github.com/jmsadair/raft/xsim/simos"
	"github.com/jmsadair/raft/xsim/simrt"
	"github.com/jmsadair/raft/xsim/simtime"
)

// Result is what one run reports.
type Result struct {
	Seed       uint64      `json:"seed"`
	Profile    string      `json:"profile"`
	Hash       string      `json:"hash"`
	Violations []Violation `json:"violations,omitempty"`
	Infra      string      `json:"infra,omitempty"`

	Steps     uint64 `json:"steps"`
	VirtualMs int64  `json:"virtual_ms"`
	Truncated bool   `json:"truncated,omitempty"`
	Discarded string `json:"discarded,omitempty"`

	Committed  int         `json:"committed"`
	OpsApplied int         `json:"ops_applied"`
	Faults     int64       `json:"faults"`
	States     []uint64    `json:"state_list,omitempty"`
	Sample     interface{} `json:"sample,omitempty"`
	NStates    int         `json:"n_states"`

	Stats  RunStats         `json:"stats"`
	Net    NetStats         `json:"net"`
	Probes map[string]int64 `json:"probes"`
	Disk   map[string]int64 `json:"disk"`

	Trace   []string `json:"trace,omitempty"`
	PlanLen int      `json:"plan_len"`
	Voters  int      `json:"voters"`
}

// Run executes one simulation.
func Run(cfg *Config, plan Plan) *Result {
	if strings.HasPrefix(cfg.Profile, "disk-") {
		return RunDisk(cfg)
	}
	sim := simrt.New(cfg.Seed)
	sim.Policy.StickyPermille = cfg.StickyPm
	sim.Policy.SpawnDelayPermille = cfg.SpawnDelayPm
	sim.Policy.SpawnDelayMaxNs = int64(cfg.SpawnDelayUs) * 1000
	if cfg.MaxSteps > 0 {
		sim.MaxSteps = cfg.MaxSteps
	}
	c := newCluster(cfg, sim)
	sim.OnUnlock = c.observe
	sim.OnPanic = func(t *simrt.Task, val interface{}, stack string) {
		c.Rec.taskPanic(t, val, stack)
		if sim.Infra != "" {
			sim.Stop()
			return
		}
		// A real panic kills the real process.
		if t.Owner != nil && t.Owner != sim.Harness {
			if inc, ok := t.Owner.Data.(*Incarnation); ok && inc.Node.Inc == inc {
				c.crashNode(inc.Node, "panic")
			}
		} else {
			// A panic in a harness task is an infrastructure problem.
			if sim.Infra == "" {
				sim.Infra = fmt.Sprintf("harness task %s panicked: %v\n%s", t.Name, val, stack)
			}
			sim.Stop()
		}
	}
	res := &Result{Seed: cfg.Seed, Profile: cfg.Profile, Voters: cfg.Voters, PlanLen: len(plan)}
	sim.Run(func() { c.controller(plan, res) })
	simos.UnmountAll()
	res.Hash = fmt.Sprintf("%016x", c.Rec.hash^sim.SchedHash)
	res.Violations = c.Rec.Violations
	res.Steps = sim.Steps()
	res.VirtualMs = sim.Now() / 1_000_000
	res.Truncated = sim.Trunc
	if sim.Infra != "" {
		res.Infra = sim.Infra
	}
	if sim.Trunc && res.Infra == "" {
		res.Discarded = "step budget exhausted"
	}
	res.Committed = len(c.Rec.Reg)
	for _, e := range c.Rec.Reg {
		if e.Applied {
			res.OpsApplied++
		}
	}
	res.Stats = c.Stats
	res.Net = c.Net.Stats
	res.Probes = c.Rec.Probes
	res.Faults = c.Stats.Crashes + c.Stats.Partitions + c.Stats.ClockJumps + c.Stats.Stalls + c.Stats.DiskErrors +
		c.Net.Stats.DroppedReq + c.Net.Stats.DroppedReply + c.Net.Stats.Duplicated + c.Net.Stats.Redelivered + c.Stats.StopStarts
	res.NStates = len(c.Rec.States)
	res.States = make([]uint64, 0, len(c.Rec.States))
	for h := range c.Rec.States {
		res.States = append(res.States, h)
	}
	sort.Slice(res.States, func(i, j int) bool { return res.States[i] < res.States[j] })
	res.Disk = map[string]int64{}
	for _, n := range c.Nodes {
		res.Disk["writes"] += n.FS.Stats.Writes
		res.Disk["syncs"] += n.FS.Stats.Syncs
		res.Disk["renames"] += n.FS.Stats.Renames
		res.Disk["removes"] += n.FS.Stats.Removes
		res.Disk["bytes"] += n.FS.Stats.BytesWritten
		res.Disk["ops"] += n.FS.OpCount
	}
	if cfg.Trace {
		res.Trace = c.Rec.trace
	}
	steps := make([]string, 0, len(plan))
	for _, st := range plan {
		steps = append(steps, st.String())
	}
	res.Sample = map[string]interface{}{
		"seed": cfg.Seed, "profile": cfg.Profile, "voters": cfg.Voters, "non_voters": cfg.NonVoters,
		"election_ms": cfg.ElectionMs, "heartbeat_ms": cfg.HeartbeatMs, "lease_ms": cfg.LeaseMs,
		"net": fmt.Sprintf("delay %d-%dus, heavy tail %d/1000 up to %dms, drop %d/1000, dup %d/1000, reply loss %d/1000, stale re-delivery %d/1000",
			cfg.MinDelayUs, cfg.MaxDelayUs, cfg.HeavyTailPm, cfg.HeavyTailMs, cfg.DropPm, cfg.DupPm, cfg.ReplyLossPm, cfg.RedeliverPm),
		"snapshot_threshold": cfg.SnapThreshold, "filler_bytes": cfg.FillerBytes, "lost_unsynced": cfg.LostUnsynced,
		"clients": cfg.Clients, "plan": steps,
		"outcome": fmt.Sprintf("%d scheduler steps, %d virtual ms, %d operations applied, %d leaders elected, %d crashes, %d violations",
			res.Steps, res.VirtualMs, res.OpsApplied, c.Rec.Probes["leader-elected"], c.Stats.Crashes, len(res.Violations)),
	}
	return res
}

func (c *Cluster) sleepUs(us int64) {
	if us <= 0 {
		simrt.Yield()
		return
	}
	simtime.Sleep(simtime.Duration(us * 1_000))
}

func (c *Cluster) sleepMs(ms int64) {
	if ms <= 0 {
		simrt.Yield()
		return
	}
	simtime.Sleep(simtime.Duration(ms * 1_000_000))
}

func (c *Cluster) sleepUntil(ns int64) {
	d := ns - c.Sim.Now()
	if d > 0 {
		simtime.Sleep(simtime.Duration(d))
	}
}

// controller is the root task of a run.
func (c *Cluster) controller(plan Plan, res *Result) {
	cfg := c.Cfg
	// Boot the initial members.
	for _, n := range c.Nodes {
		if !n.Spare {
			c.startNode(n, nil)
		}
	}
	faultEnd := int64(cfg.FaultMs) * 1_000_000
	// Workload.
	for i := 0; i < cfg.Clients; i++ {
		id := i + 1
		c.Sim.GoProc(c.Sim.Harness, fmt.Sprintf("client%d", id), func() { c.clientLoop(id, faultEnd) })
	}
	// Fault plan.
	c.Sim.GoProc(c.Sim.Harness, "injector", func() { c.runPlan(plan.Sorted(), faultEnd) })
	if cfg.NonVoters > 0 {
		c.Sim.GoProc(c.Sim.Harness, "nonvoter-setup", func() { c.setupNonVoters(faultEnd) })
	}
	c.extraTasks(faultEnd)
	c.sleepUntil(faultEnd)
	if !cfg.NoHeal {
		c.healPhase()
	}
	if os.Getenv("VERIF_DEBUG_BLOCKED") != "" {
		for _, t := range c.Sim.BlockedTasks() {
			fmt.Fprintln(os.Stderr, "blocked:", t)
		}
	}
	c.finalChecks()
	c.Sim.Stop()
}

// runPlan executes the plan's steps at their virtual times.
func (c *Cluster) runPlan(plan Plan, untilNs int64) {
	for _, st := range plan {
		at := st.AtMs * 1_000_000
		if at >= untilNs {
			return
		}
		c.sleepUntil(at)
		if c.healing {
			return
		}
		c.execStep(st)
	}
}

func (c *Cluster) execStep(st Step) {
	r := c.Rec
	r.ev("step %s", st.String())
	if st.Str == "leader" {
		// Resolve "the current leader" at run time.
		if l := c.believedLeader(); l != nil {
			switch st.Kind {
			case StepPartition:
				st.Nodes = []string{l.ID}
				if st.A == 1 {
					for _, n := range c.Nodes {
						if !n.Spare && !c.bootVoters[n.ID] {
							st.Nodes = append(st.Nodes, n.ID)
						}
					}
				}
			case StepLossy, StepSlowLink:
				st.Node = l.ID
				st.Nodes = nil
				for _, n := range c.Nodes {
					if n != l {
						st.Nodes = append(st.Nodes, n.ID)
					}
				}
			case StepOneWay:
				// The leader can no longer be heard (its requests are lost) but still hears:
				// replies already under way, however late, reach it. The deposed-but-unaware shape.
				st.Node = l.ID
				st.Nodes = nil
				for _, n := range c.Nodes {
					if n != l {
						st.Nodes = append(st.Nodes, n.ID)
					}
				}
			case StepCrash, StepStall, StepStopStart:
				st.Node = l.ID
			}
			r.probe("fault-aimed-at-leader")
		}
	}
	switch st.Kind {
	case StepPartition:
		side := map[string]bool{}
		for _, id := range st.Nodes {
			side[id] = true
		}
		for _, a := range c.Nodes {
			for _, b := range c.Nodes {
				if side[a.ID] != side[b.ID] {
					c.Net.block(a.ID, b.ID)
				}
			}
		}
		c.Stats.Partitions++
	case StepOneWay:
		for _, to := range st.Nodes {
			c.Net.block(st.Node, to)
		}
		c.Stats.Partitions++
	case StepHeal:
		c.Net.healAll()
		c.Stats.Heals++
	case StepLossy:
		for _, to := range st.Nodes {
			c.Net.setLossy(st.Node, to, int(st.A))
		}
		c.Stats.Partitions++
	case StepSlowLink:
		for _, o := range st.Nodes {
			if st.B == 1 {
				c.Net.setSlow(o, st.Node, st.A*1_000_000)
			} else {
				c.Net.setSlow(st.Node, o, st.A*1_000_000)
			}
		}
		c.Stats.SlowLinks++
	case StepCrash:
		n := c.byID[st.Node]
		if n == nil || n.Inc == nil {
			return
		}
		if st.A == 0 {
			c.Stats.CrashNow++
			c.crashNode(n, "time")
			return
		}
		// Crash at the k-th storage operation from now (A == 1), or at the k-th next storage
		// operation of one kind (A == 2).
		if st.A == 2 && st.Op != "" {
			n.FS.CrashKind, n.FS.CrashKindLeft = st.Op, st.B
			c.Stats.CrashAtOpKind++
		} else {
			n.FS.CrashAt = n.FS.OpCount + st.B
		}
		n.FS.CrashPh = int(st.C)
		if st.C == simos.Torn {
			n.FS.TornBytes = int(c.faultRng.Intn(64))
		}
		c.Stats.CrashAtOp++
	case StepRestart:
		n := c.byID[st.Node]
		if n != nil && n.Inc == nil {
			c.Stats.Restarts++
			c.startNode(n, nil)
		}
	case StepRestartAll:
		for _, n := range c.Nodes {
			if n.Inc == nil && n.Started {
				c.Stats.Restarts++
				c.startNode(n, nil)
			}
		}
	case StepClockJump:
		n := c.byID[st.Node]
		if n != nil && n.Inc != nil {
			n.Inc.Proc.Offset += st.A * 1_000_000
			c.Stats.ClockJumps++
		}
	case StepClockRate:
		n := c.byID[st.Node]
		if n != nil && n.Inc != nil && st.A > 0 && st.B > 0 {
			// Keep the local clock continuous at the switch.
			p := n.Inc.Proc
			now := c.Sim.Now()
			before := p.Offset + now/p.RateDen*p.RateNum + (now%p.RateDen)*p.RateNum/p.RateDen
			p.RateNum, p.RateDen = st.A, st.B
			after := now/p.RateDen*p.RateNum + (now%p.RateDen)*p.RateNum/p.RateDen
			p.Offset = before - after
			c.Stats.ClockJumps++
		}
	case StepStall:
		n := c.byID[st.Node]
		if n != nil && n.Inc != nil {
			n.Inc.Proc.StallUntil = c.Sim.Now() + st.A*1_000_000
			n.Inc.stalledNs += st.A * 1_000_000
			c.Stats.Stalls++
		}
	case StepNetMode:
		c.Net.DropPm = int(st.A)
		c.Net.DupPm = int(st.B)
		if st.C > 0 {
			c.Net.MaxDelayNs = st.C * 1_000_000
		}
	case StepRedeliver:
		c.Net.redeliverRecent(int(st.A))
		c.Stats.Redeliveries += st.A
	case StepBurst:
		if l := c.believedLeader(); l != nil {
			for i := int64(0); i < st.A; i++ {
				c.submit(0, l.Inc, raft.Replicated, int64(c.Cfg.OpTimeoutMs))
			}
		}
	case StepStopStart:
		// Graceful Stop, pause, then Restart (or, B=1, Start) on the SAME object: the other
		// restart style (the repository's tests re-create the node with NewRaft instead).
		n := c.byID[st.Node]
		if n != nil && n.Inc != nil && n.Inc.Raft != nil && n.Inc.booted && (n.lifecycle == nil || n.lifecycle.Returned) {
			inc := n.Inc
			pause, useStart := st.A, st.B == 1
			c.Stats.StopStarts++
			n.lifecycle = c.apiCall(inc, "plan:Stop+Restart", pause, func() {
				inc.Raft.Stop()
				if simrt.Dead() {
					return
				}
				c.sleepMs(pause)
				if simrt.Dead() {
					return
				}
				var err error
				if useStart {
					err = inc.Raft.Start()
				} else {
					err = inc.Raft.Restart()
				}
				if simrt.Dead() {
					return
				}
				if err != nil && n.Inc == inc {
					// The node object is unusable (still shut down): an application would exit
					// and be started again. Judged like a failed start over the directory
					// (not a finding if an injected disk error caused it), then the process dies.
					c.Rec.startFailed(inc, fmt.Errorf("Restart on the stopped node: %w", err))
					c.Stats.RestartFailures++
					c.crashNode(n, "restart-error")
				}
			})
		}
	case StepDiskErr:
		n := c.byID[st.Node]
		if n != nil && n.Inc != nil {
			n.FS.ErrAt = n.FS.OpCount + st.B
			if st.A == 1 {
				n.FS.ErrKind = errENOSPC
			} else {
				n.FS.ErrKind = errEIO
			}
			n.FS.ErrPrefix = int(c.faultRng.Intn(16))
			c.Stats.DiskErrors++
		}
	default:
		c.execExtraStep(st)
	}
}
