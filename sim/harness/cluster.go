package harness

import (
	"fmt"
	"sort"
	"strings"
	"time"

	"github.com/jmsadair/raft"
	"github.com/jmsadair/raft/logging"
	"github.com/jmsadair/raft/xsim/simos"
	"github.com/jmsadair/raft/xsim/simrt"
)

// Node is one server identity (id, address, disk) across incarnations.
type Node struct {
	ID   string
	Addr string
	FS   *simos.FS
	Path string

	Inc      *Incarnation // nil while down
	IncCount int
	Spare    bool // not part of the bootstrap configuration
	NonVoter bool // to be added as a non-voting member right after the first election
	Started  bool
	// Label of the newest snapshot that became visible on this node's disk: log
	// entries at or below it are dead weight (represented by the snapshot).
	snapLabel uint64

	lifecycle *ApiCall // the lifecycle call in progress (API fuzzer)
	// Taints: signatures of known findings observed on this node (F1 mislabelled snapshot
	// taken or installed, F2 restored to an older state, F3 chunk of another snapshot written
	// into a snapshot file). Consequence-type violations on a tainted node carry the taint in
	// their cause, so that only those are matched by the known findings.
	taint map[string]bool
	lastISAt  int64    // FifoIS: delivery time of the last InstallSnapshot request to this node

	// The machine's wall clock (survives process restarts).
	clockSet                       bool
	clockOffset, clockNum, clockDen int64

	Mirror *Mirror // recorder's copy of the persistent log

	// Across incarnations, for C08.
	lastTermSeen uint64
	lastTermSrc  string

	crashes int
}

// Incarnation is one process lifetime of a node.
type Incarnation struct {
	Node *Node
	N    int
	Proc *simrt.Proc
	Raft *raft.Raft
	SM   *ModelSM
	Tr   *SimTransport
	Log  *LogWrap

	Up bool

	// Observer state.
	lastStatus   raft.Status
	haveStatus   bool
	lastConfIdx  uint64
	inflight     map[uint64]*Msg
	startedAt    int64
	leaderTerms  map[uint64]bool
	bootstrapped bool

	lastVoterReplyNs int64
	openedLabel      uint64 // label of the snapshot file this incarnation opened last
	// booted: the harness's own NewRaft/Bootstrap/Start sequence has returned. Lifecycle calls of
	// the API fuzzer and of the plan wait for it (one administrator, one lifecycle call at a time).
	booted bool

	restoring int // InstallSnapshot handlers inside their unlocked restore window
	isBusy    bool
	isQueue []*Msg

	pendingConf []*ConfCall
	haveConf    bool
	lastConf    raft.Configuration
	stalledNs   int64
}

func (i *Incarnation) Name() string { return fmt.Sprintf("%s.%d", i.Node.ID, i.N) }

// Cluster is everything a run owns.
type Cluster struct {
	Cfg  *Config
	Sim  *simrt.Sim
	Net  *Net
	Rec  *Recorder
	Nodes []*Node
	byID  map[string]*Node
	byAddr map[string]*Node

	smRng    *simrt.Rand
	faultRng *simrt.Rand
	cliRng   *simrt.Rand

	// Bootstrap membership.
	bootMembers map[string]string
	bootVoters  map[string]bool

	lagging    *Node
	healing    bool
	// lagging-voter scenario: the lagging voter, the new leader, and the time of Z's last
	// rejection of an AppendEntries request of L that was not followed by an accepted one.
	scenZ, scenL string
	scenRejectAt int64
	scenRound    int
	healedInMs int64
	healConverged bool
	window     *stickyWindow
	Stats      RunStats
}

// RunStats are counters reported in the evidence.
type RunStats struct {
	Crashes, Restarts, Partitions, Heals, ClockJumps, Stalls, TornWrites, LostUnsyncedFiles int64
	CrashAtOp, CrashAtOpKind, CrashNow, DiskErrors, StopStarts, Redeliveries, LinkFlaps, SlowLinks                               int64
	RestartFailures                                                                          int64
	OpsInvoked, OpsOK, OpsFailed, OpsTimeout, OpsKilled                                      int64
	WritesOK, LinReadsOK, LeaseReadsOK                                                      int64
	MembershipCalls, MembershipOK                                                           int64
	CrashKinds map[string]int64
}

func newCluster(cfg *Config, sim *simrt.Sim) *Cluster {
	c := &Cluster{
		Cfg: cfg, Sim: sim,
		byID: map[string]*Node{}, byAddr: map[string]*Node{},
		smRng:    simrt.NewRand(cfg.Seed, "sm"),
		faultRng: simrt.NewRand(cfg.Seed, "fault"),
		cliRng:   simrt.NewRand(cfg.Seed, "client"),
		bootMembers: map[string]string{}, bootVoters: map[string]bool{},
	}
	c.Stats.CrashKinds = map[string]int64{}
	c.Net = newNet(c)
	c.Rec = newRecorder(c)
	total := cfg.Voters + cfg.NonVoters + cfg.Spares
	simos.UnmountAll()
	for i := 0; i < total; i++ {
		id := fmt.Sprintf("n%d", i+1)
		n := &Node{
			ID: id, Addr: fmt.Sprintf("127.0.0.1:%d", 8001+i), Path: "/" + id,
			FS: simos.NewFS(id), Mirror: &Mirror{Entries: []MEntry{{Placeholder: true}}},
		}
		n.FS.Yield = cfg.DiskYield
		if cfg.SyncLatencyUs > 0 {
			rng := simrt.NewRand(cfg.Seed, "disk:"+id)
			max := int64(cfg.SyncLatencyUs) * 1000
			n.FS.SyncLatency = func() int64 { return rng.Range(0, max) }
		}
		node := n
		n.FS.OnCrash = func(f *simos.FS) { c.onDiskCrash(node) }
		simos.Mount(id, n.FS)
		if i >= cfg.Voters {
			// Bootstrap makes every listed member a voter, so non-voters can only
			// come into being through AddServer: they start empty, like spares.
			n.Spare = true
			n.NonVoter = i < cfg.Voters+cfg.NonVoters
		} else {
			c.bootMembers[id] = n.Addr
			c.bootVoters[id] = true
		}
		c.Nodes = append(c.Nodes, n)
		c.byID[id] = n
		c.byAddr[n.Addr] = n
	}
	return c
}

func (c *Cluster) nodeByAddr(a string) *Node { return c.byAddr[a] }

func (c *Cluster) nowMs() int64 { return c.Sim.Now() / 1_000_000 }

// startNode creates a new incarnation over the node's directory and starts it.
// Runs as a task of the new incarnation's process and returns the error of
// NewRaft/Bootstrap/Start, if any. first = bootstrap this node (initial member).
func (c *Cluster) startNode(n *Node, done func(err error)) {
	if n.Inc != nil {
		if done != nil {
			done(nil)
		}
		return
	}
	n.IncCount++
	inc := &Incarnation{Node: n, N: n.IncCount, inflight: map[uint64]*Msg{}, leaderTerms: map[uint64]bool{}}
	inc.Proc = c.Sim.NewProc(inc.Name())
	inc.Proc.Data = inc
	// The machine's clock does not reset when the process restarts.
	if n.clockSet {
		inc.Proc.Offset, inc.Proc.RateNum, inc.Proc.RateDen = n.clockOffset, n.clockNum, n.clockDen
	}
	inc.startedAt = c.Sim.Now()
	inc.Proc.OnExit = func(p *simrt.Proc, code int) { c.onProcExit(inc, code, p.ExitStack) }
	n.FS.Thaw()
	n.Inc = inc
	inc.Up = true
	c.Rec.incarnationStart(inc)
	c.Sim.GoProc(inc.Proc, inc.Name()+"/main", func() {
		err := c.bootIncarnation(inc)
		if simrt.Dead() {
			return
		}
		if err != nil {
			c.Rec.startFailed(inc, err)
			c.Stats.RestartFailures++
			// The process would exit: the node is down again.
			inc.Up = false
			n.Inc = nil
			n.FS.Frozen = true
		}
		if done != nil {
			done(err)
		}
	})
}

func (c *Cluster) bootIncarnation(inc *Incarnation) error {
	n := inc.Node
	cfg := c.Cfg
	tr, err := newSimTransport(c.Net, inc, n.Addr)
	if err != nil {
		return fmt.Errorf("transport: %w", err)
	}
	inc.Tr = tr
	inc.SM = newModelSM(c, inc)
	lg, err := raft.NewLog(n.Path)
	if err != nil {
		return fmt.Errorf("NewLog: %w", err)
	}
	st, err := raft.NewStateStorage(n.Path)
	if err != nil {
		return fmt.Errorf("NewStateStorage: %w", err)
	}
	sn, err := raft.NewSnapshotStorage(n.Path)
	if err != nil {
		return fmt.Errorf("NewSnapshotStorage: %w", err)
	}
	inc.Log = &LogWrap{inner: lg, inc: inc, rec: c.Rec}
	opts := []raft.Option{
		raft.WithTransport(tr),
		raft.WithLog(inc.Log),
		raft.WithStateStorage(&StateWrap{inner: st, inc: inc, rec: c.Rec}),
		raft.WithSnapshotStorage(&SnapWrap{inner: sn, inc: inc, rec: c.Rec}),
		raft.WithElectionTimeout(time.Duration(cfg.ElectionMs) * time.Millisecond),
		raft.WithHeartbeatInterval(time.Duration(cfg.HeartbeatMs) * time.Millisecond),
		raft.WithLeaseDuration(time.Duration(cfg.LeaseMs) * time.Millisecond),
		raft.WithLogLevel(logging.Error),
	}
	r, err := raft.NewRaft(n.ID, n.Addr, inc.SM, n.Path, opts...)
	if err != nil {
		return fmt.Errorf("NewRaft: %w", err)
	}
	inc.Raft = r
	if !n.Spare && !n.Started {
		// As the repository's own tests do: bootstrap every initial member.
		members := map[string]string{}
		for id, a := range c.bootMembers {
			members[id] = a
		}
		if err := r.Bootstrap(members); err != nil {
			return fmt.Errorf("Bootstrap: %w", err)
		}
	}
	n.Started = true
	if err := r.Start(); err != nil {
		return fmt.Errorf("Start: %w", err)
	}
	inc.booted = true
	return nil
}

// crashNode kills the node's process now (called by a harness task, by the
// disk crash trigger, or by Exit). kind is a label for the statistics.
func (c *Cluster) crashNode(n *Node, kind string) {
	inc := n.Inc
	if inc == nil {
		return
	}
	c.Stats.Crashes++
	c.Stats.CrashKinds[kind]++
	n.crashes++
	n.saveClock(inc)
	inc.Up = false
	n.Inc = nil
	n.FS.Frozen = true
	if inc.Tr != nil {
		inc.Tr.running = false
	}
	c.Rec.incarnationEnd(inc, kind)
	if c.Cfg.LostUnsynced {
		rng := c.faultRng
		cut := n.FS.DropUnsynced(func(k int64) int64 { return rng.Int63n(k) })
		c.Stats.LostUnsyncedFiles += int64(cut)
		if cut > 0 {
			c.Rec.diskLostUnsynced(n, cut)
		}
	}
	// Fail RPCs whose handler dies with the process.
	ids := make([]uint64, 0, len(inc.inflight))
	for id := range inc.inflight {
		ids = append(ids, id)
	}
	sort.Slice(ids, func(i, j int) bool { return ids[i] < ids[j] })
	for _, id := range ids {
		c.Net.fail(inc.inflight[id], "peer crashed")
	}
	inc.inflight = map[uint64]*Msg{}
	for _, q := range inc.isQueue {
		c.Net.fail(q, "peer crashed")
	}
	inc.isQueue = nil
	if c.Cfg.AutoRestartMs > 0 && !c.healing {
		d := c.faultRng.Range(1, int64(c.Cfg.AutoRestartMs)) * 1_000_000
		c.Sim.After(d, func() {
			if n.Inc == nil && !c.healing {
				c.Stats.Restarts++
				c.startNode(n, nil)
			}
		})
	}
	c.Sim.KillProc(inc.Proc) // does not return if the caller belongs to inc
}

func (c *Cluster) onDiskCrash(n *Node) {
	if n.Inc == nil {
		return
	}
	// Tabulate where the crash landed: operation kind x file class x phase (C14 evidence).
	file := "other"
	switch p := n.FS.LastOpPath; {
	case strings.Contains(p, "tmp-snapshot") || strings.Contains(p, "/snapshots/"):
		file = "snapshot"
	case strings.Contains(p, "/log/tmp"):
		file = "log-tmp"
	case strings.Contains(p, "/log/"):
		file = "log"
	case strings.Contains(p, "/state/tmp"):
		file = "state-tmp"
	case strings.Contains(p, "/state/"):
		file = "state"
	}
	phase := [...]string{"before", "after", "torn"}[n.FS.CrashPh%3]
	c.Stats.CrashKinds["at:"+n.FS.LastOpKind+":"+file+":"+phase]++
	c.crashNode(n, "storage-op")
}

func (c *Cluster) onProcExit(inc *Incarnation, code int, stack string) {
	// logger.Fatal* -> os.Exit(1): recorded; the process dies (KillProc follows in simrt.Exit).
	c.Rec.fatalExit(inc, code, stack)
	n := inc.Node
	if n.Inc == inc {
		n.saveClock(inc)
		inc.Up = false
		n.Inc = nil
		n.FS.Frozen = true
		if inc.Tr != nil {
			inc.Tr.running = false
		}
		c.Rec.incarnationEnd(inc, "fatal")
		ids := make([]uint64, 0, len(inc.inflight))
		for id := range inc.inflight {
			ids = append(ids, id)
		}
		sort.Slice(ids, func(i, j int) bool { return ids[i] < ids[j] })
		for _, id := range ids {
			c.Net.fail(inc.inflight[id], "peer exited")
		}
		inc.inflight = map[uint64]*Msg{}
		if c.Cfg.AutoRestartMs > 0 && !c.healing {
			d := c.faultRng.Range(1, int64(c.Cfg.AutoRestartMs)) * 1_000_000
			c.Sim.After(d, func() {
				if n.Inc == nil && !c.healing {
					c.Stats.Restarts++
					c.startNode(n, nil)
				}
			})
		}
	}
}

// observe samples the public state of the node whose task just released a lock.
func (c *Cluster) observe() {
	p := simrt.CurProc()
	if p == nil {
		return
	}
	inc, ok := p.Data.(*Incarnation)
	if !ok || inc == nil || !inc.Up || inc.Raft == nil {
		return
	}
	var st raft.Status
	if !c.Sim.TryAtomic(func() { st = inc.Raft.Status() }) {
		return
	}
	c.Rec.onStatus(inc, st)
}

// configuration samples Configuration() atomically (false if the lock is held).
func (c *Cluster) configuration(inc *Incarnation) (raft.Configuration, bool) {
	var conf raft.Configuration
	ok := c.Sim.TryAtomic(func() { conf = inc.Raft.Configuration() })
	return conf, ok
}

func (c *Cluster) upNodes() []*Node {
	var out []*Node
	for _, n := range c.Nodes {
		if n.Inc != nil && n.Inc.Up && n.Inc.Raft != nil {
			out = append(out, n)
		}
	}
	return out
}

// believedLeader returns an up node whose last status sample says Leader (highest term).
func (c *Cluster) believedLeader() *Node {
	var best *Node
	for _, n := range c.Nodes {
		if n.Inc == nil || !n.Inc.Up || !n.Inc.haveStatus {
			continue
		}
		if n.Inc.lastStatus.State == raft.Leader {
			if best == nil || n.Inc.lastStatus.Term > best.Inc.lastStatus.Term {
				best = n
			}
		}
	}
	return best
}

func (n *Node) saveClock(inc *Incarnation) {
	p := inc.Proc
	n.clockSet = true
	n.clockOffset, n.clockNum, n.clockDen = p.Offset, p.RateNum, p.RateDen
}
