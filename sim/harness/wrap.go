package harness

import (
	"io"

	"github.com/jmsadair/raft"
	"github.com/jmsadair/raft/xsim/simrt"
)

// MEntry is the recorder's view of one log entry.
type MEntry struct {
	Index uint64
	Term  uint64
	Type  raft.LogEntryType
	Hash  uint64 // payload hash
	Len   int
	// Placeholder marks the compaction boundary record: only Index/Term are meaningful.
	Placeholder bool
}

func mentry(e *raft.LogEntry) MEntry {
	if e.EntryType == raft.ConfigurationEntry {
		// The protobuf encoding of a configuration (two maps) is not canonical: the
		// same configuration marshals to different byte orders. Compare by content.
		return MEntry{Index: e.Index, Term: e.Term, Type: e.EntryType, Hash: confHash(e.Data), Len: 0}
	}
	return MEntry{Index: e.Index, Term: e.Term, Type: e.EntryType, Hash: hashBytes(e.Data), Len: len(e.Data)}
}

var confCodec raft.Transport

// confHash hashes the decoded, canonically ordered content of an encoded configuration.
func confHash(data []byte) uint64 {
	if confCodec == nil {
		t, err := raft.NewTransport("127.0.0.1:1")
		if err != nil {
			return hashBytes(data)
		}
		confCodec = t
	}
	c, err := confCodec.DecodeConfiguration(data)
	if err != nil {
		return hashBytes(data) ^ 0xbad
	}
	return hashBytes([]byte(confString(c)))
}

func (a MEntry) same(b MEntry) bool {
	if a.Index != b.Index || a.Term != b.Term {
		return false
	}
	if a.Placeholder || b.Placeholder {
		return true
	}
	return a.Type == b.Type && a.Hash == b.Hash && a.Len == b.Len
}

// Mirror is the recorder's copy of a node's persistent log contents. It survives
// incarnations (it mirrors the disk) and is rebuilt from the real log on reopen.
type Mirror struct {
	// Entries[0] is the boundary placeholder (index 0 initially).
	Entries []MEntry
	// Unsynced: number of trailing entries that were found on reopening (they had been written
	// by a call that never returned) and have not been covered by a returned fsync since. Under
	// the power-loss model nothing promises that they survive the next crash.
	Unsynced int
}

func (m *Mirror) first() uint64 { return m.Entries[0].Index }
func (m *Mirror) last() MEntry  { return m.Entries[len(m.Entries)-1] }
func (m *Mirror) get(i uint64) (MEntry, bool) {
	if len(m.Entries) == 0 || i < m.Entries[0].Index {
		return MEntry{}, false
	}
	k := i - m.Entries[0].Index
	if k >= uint64(len(m.Entries)) {
		return MEntry{}, false
	}
	return m.Entries[k], true
}

// LogWrap records every call on the real file-backed log.
type LogWrap struct {
	inner raft.Log
	inc   *Incarnation
	rec   *Recorder
}

func (l *LogWrap) Open() error {
	err := l.inner.Open()
	l.rec.storageCall(l.inc, "log.Open", err)
	return err
}

func (l *LogWrap) Replay() error {
	err := l.inner.Replay()
	l.rec.storageCall(l.inc, "log.Replay", err)
	if err == nil && !simrt.Dead() {
		l.rec.logReplayed(l.inc, l.inner)
	}
	return err
}

func (l *LogWrap) Close() error {
	err := l.inner.Close()
	l.rec.storageCall(l.inc, "log.Close", err)
	return err
}

func (l *LogWrap) GetEntry(index uint64) (*raft.LogEntry, error) { return l.inner.GetEntry(index) }

func (l *LogWrap) AppendEntry(e *raft.LogEntry) error {
	return l.AppendEntries([]*raft.LogEntry{e})
}

func (l *LogWrap) AppendEntries(es []*raft.LogEntry) error {
	l.rec.logOpBegin(l.inc, "append", 0, 0, es)
	err := l.inner.AppendEntries(es)
	if simrt.Dead() {
		return err
	}
	if err == nil {
		// A call that failed (injected disk error) may or may not have reached the disk: it stays
		// "in flight" for the comparison after the restart.
		l.rec.logOpEnd(l.inc)
	}
	l.rec.storageCall(l.inc, "log.Append", err)
	if err == nil {
		l.rec.logAppended(l.inc, es)
	}
	return err
}

func (l *LogWrap) Truncate(index uint64) error {
	l.rec.logOpBegin(l.inc, "truncate", index, 0, nil)
	err := l.inner.Truncate(index)
	if simrt.Dead() {
		return err
	}
	if err == nil {
		// A call that failed (injected disk error) may or may not have reached the disk: it stays
		// "in flight" for the comparison after the restart.
		l.rec.logOpEnd(l.inc)
	}
	l.rec.storageCall(l.inc, "log.Truncate", err)
	if err == nil {
		l.rec.logTruncated(l.inc, index)
	}
	return err
}

func (l *LogWrap) DiscardEntries(index, term uint64) error {
	l.rec.logOpBegin(l.inc, "discard", index, term, nil)
	err := l.inner.DiscardEntries(index, term)
	if simrt.Dead() {
		return err
	}
	if err == nil {
		// A call that failed (injected disk error) may or may not have reached the disk: it stays
		// "in flight" for the comparison after the restart.
		l.rec.logOpEnd(l.inc)
	}
	l.rec.storageCall(l.inc, "log.Discard", err)
	if err == nil {
		l.rec.logDiscarded(l.inc, index, term)
	}
	return err
}

func (l *LogWrap) Compact(index uint64) error {
	l.rec.logOpBegin(l.inc, "compact", index, 0, nil)
	err := l.inner.Compact(index)
	if simrt.Dead() {
		return err
	}
	if err == nil {
		// A call that failed (injected disk error) may or may not have reached the disk: it stays
		// "in flight" for the comparison after the restart.
		l.rec.logOpEnd(l.inc)
	}
	l.rec.storageCall(l.inc, "log.Compact", err)
	if err == nil {
		l.rec.logCompacted(l.inc, index)
	}
	return err
}

func (l *LogWrap) Contains(index uint64) bool { return l.inner.Contains(index) }
func (l *LogWrap) LastIndex() uint64           { return l.inner.LastIndex() }
func (l *LogWrap) LastTerm() uint64            { return l.inner.LastTerm() }
func (l *LogWrap) NextIndex() uint64           { return l.inner.NextIndex() }
func (l *LogWrap) Size() int                   { return l.inner.Size() }

// StateWrap records term/vote writes.
type StateWrap struct {
	inner raft.StateStorage
	inc   *Incarnation
	rec   *Recorder
}

func (s *StateWrap) SetState(term uint64, vote string) error {
	s.rec.setStateBegin(s.inc, term, vote)
	err := s.inner.SetState(term, vote)
	if simrt.Dead() {
		return err
	}
	s.rec.storageCall(s.inc, "state.Set", err)
	if err == nil {
		s.rec.setStateDone(s.inc, term, vote)
	}
	return err
}

func (s *StateWrap) State() (uint64, string, error) {
	t, v, err := s.inner.State()
	if !simrt.Dead() {
		s.rec.storageCall(s.inc, "state.Get", err)
		if err == nil {
			s.rec.stateLoaded(s.inc, t, v)
		}
	}
	return t, v, err
}

// SnapWrap records snapshot storage activity.
type SnapWrap struct {
	inner raft.SnapshotStorage
	inc   *Incarnation
	rec   *Recorder
}

func (s *SnapWrap) NewSnapshotFile(idx, term uint64, conf []byte) (raft.SnapshotFile, error) {
	f, err := s.inner.NewSnapshotFile(idx, term, conf)
	if simrt.Dead() {
		return f, err
	}
	s.rec.storageCall(s.inc, "snap.New", err)
	if err != nil {
		return f, err
	}
	w := &SnapFileWrap{inner: f, inc: s.inc, rec: s.rec, writing: true}
	if ctx := s.rec.ctxByTask[s.rec.c.Sim.Cur()]; ctx != nil && ctx.Msg.Kind == KindIS {
		w.openTerm = ctx.Msg.IS.Term
	}
	s.rec.snapNew(s.inc, w)
	return w, nil
}

func (s *SnapWrap) SnapshotFile() (raft.SnapshotFile, error) {
	f, err := s.inner.SnapshotFile()
	if simrt.Dead() {
		return f, err
	}
	s.rec.storageCall(s.inc, "snap.Open", err)
	if err != nil || f == nil {
		return f, err
	}
	w := &SnapFileWrap{inner: f, inc: s.inc, rec: s.rec}
	s.rec.snapOpened(s.inc, w)
	return w, nil
}

// SnapFileWrap wraps one snapshot file (being written or being read).
type SnapFileWrap struct {
	inner   raft.SnapshotFile
	inc     *Incarnation
	rec     *Recorder
	writing bool
	written []byte
	closed  bool
	// openTerm: term of the InstallSnapshot request that created the file (0 for local snapshots).
	openTerm uint64
}

func (f *SnapFileWrap) Read(p []byte) (int, error) { return f.inner.Read(p) }

func (f *SnapFileWrap) Write(p []byte) (int, error) {
	n, err := f.inner.Write(p)
	if simrt.Dead() {
		return n, err
	}
	if n > 0 && f.writing {
		// The repository only ever appends to a snapshot being written.
		f.written = append(f.written, p[:n]...)
	}
	// Signature of known finding F3: a chunk that belongs to another snapshot than
	// the one this file is labelled with.
	if ctx := f.rec.ctxByTask[f.rec.c.Sim.Cur()]; ctx != nil && ctx.Msg.Kind == KindIS && f.writing {
		// (Only OLDER into NEWER is the known finding: a request with a greater last index
		// resets the file on the unchanged tree, so the opposite direction is something else.)
		if ctx.Msg.IS.Term != f.openTerm {
			// The unchanged tree discards a partially received snapshot whenever the term
			// changes: a chunk of another term's leader in this file is not F3.
			f.rec.probe("chunk-written-into-file-of-another-term")
		} else if ctx.Msg.IS.LastIncludedIndex < f.inner.Metadata().LastIncludedIndex {
			f.rec.setTaint(f.inc.Node, "F3")
			f.rec.probe("chunk-of-older-snapshot-written-into-newer-file")
		} else if ctx.Msg.IS.LastIncludedIndex > f.inner.Metadata().LastIncludedIndex {
			f.rec.probe("chunk-of-newer-snapshot-written-into-older-file")
		}
	}
	if err != nil {
		f.rec.storageCall(f.inc, "snap.Write", err)
	}
	return n, err
}

func (f *SnapFileWrap) Seek(off int64, whence int) (int64, error) {
	n, err := f.inner.Seek(off, whence)
	if err == nil && f.writing && !(whence == io.SeekCurrent && off == 0) && !simrt.Dead() {
		f.rec.snapSeekWhileWriting(f.inc, f, off, whence)
	}
	return n, err
}

func (f *SnapFileWrap) Close() error {
	if f.writing && !f.closed {
		// The process may die inside Close right after the rename made the snapshot visible:
		// it is then on the disk (and will be restored and forwarded after the restart) although
		// the observation below never happens. Its bytes are registered as "a snapshot this node
		// may have" beforehand; a locally taken one also gives the node the F1 signature if it
		// holds operations beyond its label.
		f.rec.snapClosing(f.inc, f)
	}
	err := f.inner.Close()
	if simrt.Dead() {
		return err
	}
	f.rec.storageCall(f.inc, "snap.Close", err)
	if err == nil && f.writing && !f.closed {
		f.closed = true
		f.rec.snapVisible(f.inc, f)
	}
	f.closed = true
	return err
}

func (f *SnapFileWrap) Discard() error {
	err := f.inner.Discard()
	if simrt.Dead() {
		return err
	}
	f.rec.storageCall(f.inc, "snap.Discard", err)
	if f.writing && !f.closed {
		f.closed = true
		f.rec.snapDiscarded(f.inc, f)
	}
	return err
}

func (f *SnapFileWrap) Metadata() raft.SnapshotMetadata { return f.inner.Metadata() }
