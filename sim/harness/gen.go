package harness

import (
	"fmt"
	"sort"

	"github.com/jmsadair/raft/xsim/simos"
	"github.com/jmsadair/raft/xsim/simrt"
)

// Profiles (DESIGN.md section 5): which features a property's runs enable.
const (
	ProfCore       = "core"       // C01 C03 C06 C07: static members, no snapshots, all faults
	ProfElection   = "election"   // C02 C08: vote-write crashes, stalls, non-voters, re-delivery
	ProfDurability = "durability" // C04: storage-boundary crashes, lost un-synced data, bare-majority restarts
	ProfReads      = "reads"      // C05: non-voters, unbounded reply delay, skew, deposed leaders
	ProfMembership = "membership" // C09
	ProfSnapshot   = "snapshot"   // C11: snapshots with reordered / duplicated / stale InstallSnapshot chunks
	ProfSnapFifo   = "snapfifo"   // C10: snapshots, InstallSnapshot requests in order
	ProfCrashSweep = "crashsweep" // C14
	ProfLiveness   = "liveness"   // C15 (mix of the above, judged on the heal phase)
	ProfSticky     = "sticky"     // C16
	ProfLease      = "lease"      // C17
	ProfApi        = "api"        // C18
)

func pick(r *simrt.Rand, vals ...int) int { return vals[r.Intn(len(vals))] }

func weighted(r *simrt.Rand, pairs ...int) int {
	// pairs: value, weight, value, weight...
	total := 0
	for i := 1; i < len(pairs); i += 2 {
		total += pairs[i]
	}
	x := r.Intn(total)
	for i := 0; i < len(pairs); i += 2 {
		if x < pairs[i+1] {
			return pairs[i]
		}
		x -= pairs[i+1]
	}
	return pairs[0]
}

// Gen derives a run's configuration and plan from (profile, seed).
func Gen(profile string, seed uint64) (*Config, Plan) {
	g := simrt.NewRand(seed, "gen:"+profile)
	cfg := &Config{Seed: seed, Profile: profile}
	if profile == ProfDiskLog || profile == ProfDiskStore {
		cfg.LostUnsynced = g.Chance(0.3)
		return cfg, Plan{}
	}

	cfg.Voters = weighted(g, 1, 5, 2, 12, 3, 38, 4, 15, 5, 30)
	cfg.ElectionMs = pick(g, 50, 100, 150, 300)
	cfg.HeartbeatMs = cfg.ElectionMs / pick(g, 3, 5, 6, 8)
	cfg.LeaseMs = cfg.ElectionMs / pick(g, 2, 3, 4)

	// Network: swarm-style, every kind on or off per run.
	cfg.MinDelayUs = pick(g, 50, 200, 1000)
	cfg.MaxDelayUs = cfg.MinDelayUs + pick(g, 500, 2000, 8000, 20000)
	if g.Chance(0.5) {
		cfg.HeavyTailPm = pick(g, 5, 20, 60)
		cfg.HeavyTailMs = cfg.ElectionMs * pick(g, 1, 2, 4)
	}
	if g.Chance(0.5) {
		cfg.DropPm = pick(g, 10, 50, 150)
	}
	if g.Chance(0.4) {
		cfg.DupPm = pick(g, 10, 50)
	}
	if g.Chance(0.4) {
		cfg.ReplyLossPm = pick(g, 10, 50, 150)
	}
	if g.Chance(0.3) {
		cfg.RedeliverPm = pick(g, 5, 20)
	}
	cfg.ErrDelayMaxMs = pick(g, 1, cfg.HeartbeatMs, cfg.ElectionMs, 2*cfg.ElectionMs)

	cfg.StickyPm = pick(g, 0, 500, 800, 950)
	if g.Chance(0.35) {
		cfg.SpawnDelayPm = pick(g, 50, 300, 1000)
		cfg.SpawnDelayUs = pick(g, 50, 500, 3000)
	}
	cfg.DiskYield = g.Chance(0.5)
	if g.Chance(0.4) {
		cfg.SyncLatencyUs = pick(g, 200, 2000, 10000)
	}

	cfg.Clients = pick(g, 1, 2, 3, 4)
	cfg.OpIntervalMs = pick(g, 2, 10, 30)
	cfg.OpTimeoutMs = pick(g, cfg.ElectionMs/2, 2*cfg.ElectionMs, 10*cfg.ElectionMs)
	cfg.MaxOps = 150
	cfg.PayloadBytes = pick(g, 10, 40, 200)
	cfg.WritePm = 1000
	cfg.AnyNodePm = pick(g, 100, 300, 600)

	cfg.FaultMs = cfg.ElectionMs * pick(g, 15, 30, 60)
	cfg.AutoRestartMs = cfg.ElectionMs * pick(g, 1, 4, 10)
	cfg.ApplyDelayUs = pick(g, 0, 0, 100, 2000)

	nFaults := pick(g, 0, 2, 4, 6, 10)
	kinds := map[string]bool{}
	for _, k := range []string{"partition", "crash", "crashop", "clock", "stall", "burst", "oneway"} {
		kinds[k] = g.Chance(0.6)
	}
	kinds["stopstart"] = g.Chance(0.35)
	kinds["lossy"] = g.Chance(0.5)
	kinds["slowlink"] = g.Chance(0.4)
	kinds["diskerr"] = false

	switch profile {
	case ProfCore:
		cfg.WritePm = 1000
	case ProfElection:
		cfg.Voters = weighted(g, 2, 15, 3, 40, 4, 15, 5, 30)
		if g.Chance(0.4) {
			cfg.NonVoters = pick(g, 1, 2)
		}
		// Close election timers: many simultaneous candidacies.
		cfg.ElectionMs = pick(g, 50, 100)
		cfg.HeartbeatMs = cfg.ElectionMs / pick(g, 3, 5)
		cfg.LeaseMs = cfg.ElectionMs / pick(g, 2, 3, 4)
		cfg.FaultMs = cfg.ElectionMs * pick(g, 30, 60, 100)
		cfg.AutoRestartMs = cfg.ElectionMs * pick(g, 1, 3)
		cfg.Clients = pick(g, 0, 1, 2)
		kinds["stall"] = true
		kinds["crashop"] = true
		kinds["partition"] = true
		if cfg.RedeliverPm == 0 {
			cfg.RedeliverPm = pick(g, 0, 10, 30)
		}
		nFaults = pick(g, 4, 8, 12, 16)
	case ProfDurability:
		kinds["diskerr"] = g.Chance(0.4)
		cfg.LostUnsynced = g.Chance(0.6)
		cfg.ImageAtAck = 1
		kinds["crash"] = true
		kinds["crashop"] = true
		cfg.Voters = weighted(g, 1, 5, 2, 25, 3, 25, 4, 25, 5, 20)
		nFaults = pick(g, 4, 8, 12)
	case ProfReads:
		cfg.Voters = weighted(g, 2, 15, 3, 45, 5, 40)
		if g.Chance(0.6) {
			cfg.NonVoters = pick(g, 1, 2)
		}
		cfg.WritePm, cfg.LinReadPm = 450, 550
		cfg.AnyNodePm = pick(g, 400, 700)
		// Long heartbeat intervals widen the window in which a read can join a verification
		// round that is already in flight.
		cfg.HeartbeatMs = cfg.ElectionMs * 10 / pick(g, 15, 20, 30, 50, 80)
		cfg.HeavyTailPm = pick(g, 20, 60, 120)
		cfg.HeavyTailMs = cfg.ElectionMs * pick(g, 2, 4, 6)
		cfg.Clients = pick(g, 2, 3, 4)
		cfg.OpIntervalMs = pick(g, 2, 5, 10)
		cfg.MaxOps = 250
		kinds["partition"] = true
		kinds["clock"] = true
		kinds["oneway"] = true
		kinds["slowlink"] = g.Chance(0.7)
		nFaults = pick(g, 4, 8, 12)
	case ProfLease:
		// (a late goroutine start is a message delay on top of the bound D: not in this profile)
		cfg.SpawnDelayPm, cfg.SpawnDelayUs = 0, 0
		cfg.Voters = weighted(g, 3, 50, 5, 40, 4, 10)
		if g.Chance(0.5) {
			cfg.NonVoters = pick(g, 1, 2)
		}
		cfg.ElectionMs = pick(g, 100, 150, 300)
		cfg.HeartbeatMs = cfg.ElectionMs / pick(g, 5, 8, 10)
		// L + D < E with a margin: lease L, max one-way delay D.
		cfg.LeaseMs = cfg.ElectionMs * pick(g, 20, 40, 60) / 100
		cfg.DelayBoundMs = (cfg.ElectionMs - cfg.LeaseMs) * pick(g, 20, 50, 80) / 100
		if cfg.DelayBoundMs < 1 {
			cfg.DelayBoundMs = 1
		}
		cfg.MaxDelayUs = cfg.MinDelayUs + pick(g, 500, 2000, cfg.DelayBoundMs*1000)
		if cfg.MaxDelayUs > cfg.DelayBoundMs*1000 {
			cfg.MaxDelayUs = cfg.DelayBoundMs * 1000
		}
		cfg.HeavyTailMs = cfg.DelayBoundMs
		cfg.ErrDelayMaxMs = pick(g, 1, cfg.HeartbeatMs)
		cfg.RedeliverPm = 0
		cfg.SyncLatencyUs = 0
		cfg.ApplyDelayUs = 0
		cfg.WritePm, cfg.LeaseReadPm = 450, 550
		cfg.AnyNodePm = pick(g, 400, 700)
		cfg.Clients = pick(g, 2, 3, 4)
		cfg.OpIntervalMs = pick(g, 2, 5, 10)
		cfg.MaxOps = 250
		kinds["partition"] = true
		kinds["oneway"] = true
		kinds["clock"] = false
		kinds["stall"] = false
		nFaults = pick(g, 4, 8, 12)
	case ProfMembership:
		cfg.Membership = true
		cfg.Voters = weighted(g, 1, 15, 2, 20, 3, 40, 4, 25)
		cfg.Spares = pick(g, 2, 3)
		cfg.FaultMs = cfg.ElectionMs * pick(g, 40, 80, 120)
		cfg.Clients = pick(g, 1, 2)
		cfg.OpIntervalMs = pick(g, 10, 30)
		kinds["partition"] = true
		kinds["oneway"] = true
		kinds["crash"] = g.Chance(0.7)
		nFaults = pick(g, 4, 8, 12, 16)
	case ProfSticky:
		cfg.StickyWindow = true
		cfg.Voters = weighted(g, 3, 45, 4, 15, 5, 40)
		cfg.FaultMs = cfg.ElectionMs * pick(g, 60, 120, 240)
		cfg.Clients = pick(g, 0, 1)
		cfg.AnyNodePm = 0
		cfg.RedeliverPm = 0
		cfg.SyncLatencyUs = 0
		cfg.ApplyDelayUs = 0
		cfg.AutoRestartMs = 0
		nFaults = 0
	case ProfApi:
		cfg.ApiFuzz = true
		cfg.Voters = weighted(g, 1, 25, 2, 20, 3, 55)
		cfg.Spares = pick(g, 0, 1)
		cfg.FaultMs = cfg.ElectionMs * pick(g, 30, 60)
		cfg.Clients = pick(g, 0, 1)
		if g.Chance(0.4) {
			cfg.SnapThreshold = pick(g, 3, 10)
		}
		kinds["crash"] = false
		kinds["crashop"] = false
		kinds["clock"] = false
		kinds["slowlink"] = false
		nFaults = pick(g, 0, 2, 4)
	case ProfSnapshot, ProfSnapFifo, ProfCrashSweep, ProfLiveness:
		cfg.SnapThreshold = pick(g, 2, 5, 10, 25, 40)
		cfg.FillerBytes = pick(g, 0, 100, 5000, 40000, 100000)
		cfg.SnapDelayUs = pick(g, 0, 500, 5000)
		cfg.RestoreDelayUs = pick(g, 0, 500, 5000)
		cfg.ApplyDelayUs = pick(g, 0, 100, 2000)
		cfg.OpIntervalMs = pick(g, 2, 5, 10)
		cfg.MaxOps = 200
		kinds["partition"] = true
		kinds["crash"] = true
		if profile != ProfSnapshot && profile != ProfSnapFifo {
			kinds["crashop"] = true
		}
		if profile == ProfCrashSweep {
			kinds["diskerr"] = g.Chance(0.3)
		}
		if profile == ProfSnapshot && g.Chance(0.3) {
			// A third of the snapshot runs carry the membership workload too ("and carries the
			// configuration committed at i").
			cfg.Membership = true
			cfg.Spares = pick(g, 1, 2)
		}
		if profile == ProfLiveness && g.Chance(0.3) {
			cfg.SnapThreshold = 0
		}
		nFaults = pick(g, 3, 6, 10)
	}
	if cfg.HeartbeatMs < 5 {
		cfg.HeartbeatMs = 5
	}
	// A disk whose fsync takes longer than the interval between heartbeats cannot keep up with
	// the heartbeats alone (every AppendEntries syncs): that is overload, not a schedule.
	if max := cfg.HeartbeatMs * 1000 / 4; cfg.SyncLatencyUs > max {
		cfg.SyncLatencyUs = max
	}

	ids := make([]string, cfg.Voters+cfg.NonVoters)
	for i := range ids {
		ids[i] = fmt.Sprintf("n%d", i+1)
	}
	var plan Plan
	tmax := int64(cfg.FaultMs)
	for i := 0; i < nFaults; i++ {
		at := g.Range(int64(cfg.ElectionMs), tmax)
		var enabled []string
		for k, on := range kinds {
			if on {
				enabled = append(enabled, k)
			}
		}
		if len(enabled) == 0 {
			break
		}
		sort.Strings(enabled)
		k := enabled[g.Intn(len(enabled))]
		node := ids[g.Intn(len(ids))]
		switch k {
		case "partition":
			// Random side; biased to isolate a single node (often the leader: decided at run time by "leader").
			var side []string
			if g.Chance(0.5) {
				side = []string{node}
			} else {
				for _, id := range ids {
					if g.Chance(0.5) {
						side = append(side, id)
					}
				}
			}
			st := Step{AtMs: at, Kind: StepPartition, Nodes: side}
			if g.Chance(0.4) {
				st.Str = "leader" // resolve at run time: isolate the current leader (alone or with the non-voters)
				st.A = int64(g.Intn(2))
			}
			plan = append(plan, st)
			plan = append(plan, Step{AtMs: at + g.Range(int64(cfg.HeartbeatMs), 6*int64(cfg.ElectionMs)), Kind: StepHeal})
		case "oneway":
			var to []string
			for _, id := range ids {
				if id != node && g.Chance(0.6) {
					to = append(to, id)
				}
			}
			st := Step{AtMs: at, Kind: StepOneWay, Node: node, Nodes: to, A: int64(g.Intn(2))}
			plan = append(plan, st)
			plan = append(plan, Step{AtMs: at + g.Range(int64(cfg.HeartbeatMs), 6*int64(cfg.ElectionMs)), Kind: StepHeal})
		case "crash":
			st := Step{AtMs: at, Kind: StepCrash, Node: node}
			if g.Chance(0.3) {
				st.Str = "leader"
			}
			plan = append(plan, st)
			if g.Chance(0.15) {
				// Everybody at once.
				for _, id := range ids {
					if id != node {
						plan = append(plan, Step{AtMs: at, Kind: StepCrash, Node: id})
					}
				}
			}
		case "crashop":
			ph := int64(pick(g, simos.Before, simos.After, simos.Torn))
			st := Step{AtMs: at, Kind: StepCrash, Node: node, A: 1, B: g.Range(1, 25), C: ph}
			if g.Chance(0.35) {
				// Aim at a boundary between protocol steps: the next few renames (snapshot made
				// visible, state file replaced, compacted log swapped in), syncs or removals.
				st.A, st.B = 2, g.Range(1, 4)
				st.Op = []string{simos.OpRename, simos.OpRename, simos.OpSync, simos.OpRemove, simos.OpCreate, simos.OpMkdir}[g.Intn(6)]
			}
			if g.Chance(0.3) {
				st.Str = "leader"
			}
			plan = append(plan, st)
		case "clock":
			if g.Chance(0.5) {
				lo := -3 * int64(cfg.ElectionMs)
				plan = append(plan, Step{AtMs: at, Kind: StepClockJump, Node: node, A: g.Range(lo, 3*int64(cfg.ElectionMs))})
			} else {
				num := int64(pick(g, 80, 90, 110, 125))
				plan = append(plan, Step{AtMs: at, Kind: StepClockRate, Node: node, A: num, B: 100})
			}
		case "stall":
			st := Step{AtMs: at, Kind: StepStall, Node: node, A: g.Range(int64(cfg.HeartbeatMs), 4*int64(cfg.ElectionMs))}
			if g.Chance(0.3) {
				st.Str = "leader"
			}
			plan = append(plan, st)
		case "lossy":
			// Flaky links: most messages are lost, now and then one gets through.
			var to []string
			for _, id := range ids {
				if id != node && g.Chance(0.6) {
					to = append(to, id)
				}
			}
			st := Step{AtMs: at, Kind: StepLossy, Node: node, Nodes: to, A: int64(pick(g, 500, 800, 900, 950))}
			if g.Chance(0.4) {
				st.Str = "leader"
			}
			plan = append(plan, st)
			plan = append(plan, Step{AtMs: at + g.Range(int64(cfg.ElectionMs), 10*int64(cfg.ElectionMs)), Kind: StepHeal})
		case "slowlink":
			// What a node hears arrives late (half to three election timeouts); a little later
			// (sometimes) it can no longer be heard at all: answers to its last requests are still
			// under way while the others move on without it.
			var others []string
			for _, id := range ids {
				if id != node {
					others = append(others, id)
				}
			}
			st := Step{AtMs: at, Kind: StepSlowLink, Node: node, Nodes: others, A: g.Range(int64(cfg.ElectionMs)/2, 3*int64(cfg.ElectionMs)), B: int64(g.Intn(2))}
			lead := g.Chance(0.5)
			if lead {
				st.Str = "leader"
			}
			plan = append(plan, st)
			if g.Chance(0.6) {
				mute := Step{AtMs: at + g.Range(0, 2*int64(cfg.HeartbeatMs)), Kind: StepOneWay, Node: node, Nodes: others}
				if lead {
					mute.Str = "leader"
				}
				plan = append(plan, mute)
			}
			plan = append(plan, Step{AtMs: at + g.Range(2*int64(cfg.ElectionMs), 8*int64(cfg.ElectionMs)), Kind: StepHeal})
		case "diskerr":
			// EIO or ENOSPC at the k-th storage operation from now: the repository's answer to any
			// storage error is logger.Fatal (fail-stop); the node is restarted later like a crashed one.
			plan = append(plan, Step{AtMs: at, Kind: StepDiskErr, Node: node, A: int64(g.Intn(2)), B: g.Range(1, 25)})
		case "stopstart":
			st := Step{AtMs: at, Kind: StepStopStart, Node: node, A: g.Range(0, 3*int64(cfg.ElectionMs))}
			if g.Chance(0.4) {
				st.Str = "leader"
				if g.Chance(0.5) && at > 0 {
					// Operations in flight when the leader is stopped gracefully.
					plan = append(plan, Step{AtMs: at - 1, Kind: StepBurst, A: g.Range(2, 8)})
				}
			}
			plan = append(plan, st)
		case "burst":
			plan = append(plan, Step{AtMs: at, Kind: StepBurst, A: g.Range(2, 12)})
		}
	}
	if (profile == ProfReads || profile == ProfLease || profile == ProfElection) && cfg.Voters >= 3 && g.Chance(0.4) {
		cfg.Scenario = "lagging-voter"
	}
	if (profile == ProfReads || profile == ProfLease) && cfg.Voters >= 4 && cfg.Scenario == "" && g.Chance(0.4) {
		cfg.Scenario = "slow-quorum"
	}
	if profile == ProfReads || profile == ProfLease {
		// Bias: mute the current leader (outgoing only) a few times, so that it stays leader in its
		// own eyes while late replies keep arriving and a new leader takes over on the other side.
		for i := 0; i < pick(g, 1, 2, 3); i++ {
			at := g.Range(int64(cfg.ElectionMs), tmax)
			plan = append(plan, Step{AtMs: at, Kind: StepOneWay, Str: "leader"})
			plan = append(plan, Step{AtMs: at + g.Range(2*int64(cfg.ElectionMs), 8*int64(cfg.ElectionMs)), Kind: StepHeal})
		}
		if profile == ProfReads {
			// A leader frozen for a few election timeouts (GC pause, SIGSTOP, VM migration) wakes
			// up deposed, with replies and client requests queued: everything happens at once.
			for i := 0; i < pick(g, 1, 2, 4); i++ {
				at := g.Range(int64(cfg.ElectionMs), tmax)
				plan = append(plan, Step{AtMs: at, Kind: StepStall, Str: "leader", Node: ids[0], A: g.Range(int64(cfg.ElectionMs), 5*int64(cfg.ElectionMs))})
			}
		}
	}
	if cfg.RedeliverPm > 0 && g.Chance(0.5) {
		for i := 0; i < 3; i++ {
			plan = append(plan, Step{AtMs: g.Range(int64(cfg.ElectionMs), tmax), Kind: StepRedeliver, A: g.Range(1, 6)})
		}
	}
	return cfg, plan.Sorted()
}
