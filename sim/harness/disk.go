package harness

import (
	"bytes"
	"fmt"
	"io"
	"strings"

	"github.com/jmsadair/raft"
	"github.com/jmsadair/raft/logging"
	"github.com/jmsadair/raft/xsim/simos"
	"github.com/jmsadair/raft/xsim/simrt"
	"github.com/jmsadair/raft/xsim/simtime"
)

// Disk-only engine (C12, C13): a seeded program of storage API calls runs on the
// repository's real file-backed implementations over the simulated disk; the
// crash-point set of the program is enumerated completely (every storage
// operation boundary, and byte boundaries inside writes), each image is reopened
// with the repository's own code and compared with a trivial model.

const (
	ProfDiskLog   = "disk-C12"
	ProfDiskStore = "disk-C13"
)

type diskOp struct {
	Kind    string // append, truncate, compact, discard, reopen | setstate, snap, snapdiscard, readsnap, reopen
	Entries []*raft.LogEntry
	Index   uint64
	Term    uint64
	Vote    string
	Chunks  [][]byte
	Conf    []byte
	// ReadAt: for snap/snapdiscard, SnapshotFile() is also called (and judged) while the file is
	// still open for writing, after ReadAt-1 of its writes (0 = never): a snapshot being written
	// by one party (state machine, incoming transfer) while another one is sent to a follower.
	ReadAt int
}

func (o diskOp) String() string {
	switch o.Kind {
	case "append":
		var parts []string
		for _, e := range o.Entries {
			parts = append(parts, fmt.Sprintf("%d/%d/t%d/%dB", e.Index, e.Term, e.EntryType, len(e.Data)))
		}
		return "append[" + strings.Join(parts, " ") + "]"
	case "truncate", "compact":
		return fmt.Sprintf("%s(%d)", o.Kind, o.Index)
	case "discard":
		return fmt.Sprintf("discard(%d,%d)", o.Index, o.Term)
	case "setstate":
		return fmt.Sprintf("setstate(%d,%q)", o.Term, o.Vote)
	case "snap", "snapdiscard":
		n := 0
		for _, c := range o.Chunks {
			n += len(c)
		}
		rd := ""
		if o.ReadAt > 0 {
			rd = fmt.Sprintf(", read after write %d", o.ReadAt-1)
		}
		return fmt.Sprintf("%s(label %d/%d, %d writes, %dB%s)", o.Kind, o.Index, o.Term, len(o.Chunks), n, rd)
	}
	return o.Kind
}

// logModel is the reference model of the log: a slice.
type logModel struct {
	first     uint64 // boundary index
	firstTerm uint64
	entries   []MEntry
	raw       []*raft.LogEntry
}

func (m *logModel) clone() *logModel {
	return &logModel{first: m.first, firstTerm: m.firstTerm, entries: append([]MEntry(nil), m.entries...), raw: append([]*raft.LogEntry(nil), m.raw...)}
}
func (m *logModel) last() uint64 { return m.first + uint64(len(m.entries)) }
func (m *logModel) lastTerm() uint64 {
	if len(m.entries) == 0 {
		return m.firstTerm
	}
	return m.entries[len(m.entries)-1].Term
}

func (m *logModel) apply(o diskOp) {
	switch o.Kind {
	case "append":
		for _, e := range o.Entries {
			m.entries = append(m.entries, mentryRaw(e))
			m.raw = append(m.raw, e)
		}
	case "truncate":
		k := o.Index - m.first - 1
		m.entries = m.entries[:k]
		m.raw = m.raw[:k]
	case "compact":
		k := o.Index - m.first
		m.firstTerm = m.entries[k-1].Term
		m.entries = append([]MEntry(nil), m.entries[k:]...)
		m.raw = append([]*raft.LogEntry(nil), m.raw[k:]...)
		m.first = o.Index
	case "discard":
		m.first, m.firstTerm = o.Index, o.Term
		m.entries, m.raw = nil, nil
	}
}

// mentryRaw hashes the payload bytes as they are (the disk engine compares bytes, not configurations).
func mentryRaw(e *raft.LogEntry) MEntry {
	return MEntry{Index: e.Index, Term: e.Term, Type: e.EntryType, Hash: hashBytes(e.Data), Len: len(e.Data)}
}

func genLogProgram(rng *simrt.Rand, length int) []diskOp {
	m := &logModel{}
	var prog []diskOp
	term := uint64(1)
	for len(prog) < length {
		var o diskOp
		x := rng.Intn(100)
		n := uint64(len(m.entries))
		switch {
		case x < 50 || n == 0 && x < 85:
			k := 1
			if rng.Chance(0.5) {
				k = 1 + rng.Intn(4)
			}
			o.Kind = "append"
			for i := 0; i < k; i++ {
				if rng.Chance(0.2) {
					term += uint64(1 + rng.Intn(2))
				}
				size := 0
				switch rng.Intn(4) {
				case 1:
					size = 1 + rng.Intn(8)
				case 2:
					size = 1 + rng.Intn(60)
				case 3:
					size = 100 + rng.Intn(400)
				}
				data := make([]byte, size)
				for j := range data {
					data[j] = byte(rng.Uint64())
				}
				t := term
				if t < m.lastTerm() {
					t = m.lastTerm()
				}
				e := raft.NewLogEntry(m.last()+1+uint64(i), t, data, raft.LogEntryType(rng.Intn(3)))
				o.Entries = append(o.Entries, e)
			}
		case x < 62 && n > 0:
			o.Kind = "truncate"
			o.Index = m.first + 1 + uint64(rng.Intn(int(n)))
		case x < 76 && n > 0:
			o.Kind = "compact"
			o.Index = m.first + 1 + uint64(rng.Intn(int(n)))
		case x < 84:
			o.Kind = "discard"
			o.Index = m.last() + uint64(rng.Intn(5))
			if rng.Chance(0.2) && m.last() > 2 {
				o.Index = m.last() - 1
			}
			o.Term = term
		default:
			o.Kind = "reopen"
		}
		m.apply(o)
		prog = append(prog, o)
	}
	return prog
}

type diskRun struct {
	res        *Result
	fs         *simos.FS
	crashPts   int64
	images     map[uint64]struct{}
	lostModel  bool
	rng        *simrt.Rand
	reopens    int64
	continued  int64
}

func classifyDiskErr(err error) string {
	s := err.Error()
	switch {
	case strings.Contains(s, "unexpected EOF"), strings.Contains(s, "could not read"):
		return "torn-tail"
	case strings.Contains(s, "unmarshal"), strings.Contains(s, "invalid wire"):
		return "garbage-after-tail"
	case strings.Contains(s, "remove temporary"):
		return "tmp-cleanup"
	case strings.Contains(s, "panic while"):
		return "panic"
	}
	return "other"
}

// withCrash runs fn with a crash trigger armed; returns true if the crash fired.
func withCrash(fs *simos.FS, at int64, phase, torn int, fn func()) (crashed bool, panicVal interface{}) {
	fs.CrashAt, fs.CrashPh, fs.TornBytes = at, phase, torn
	defer func() {
		if r := recover(); r != nil {
			if _, ok := r.(simos.CrashPanic); ok {
				crashed = true
				return
			}
			panicVal = r
		}
		fs.CrashAt = 0
	}()
	fn()
	return false, nil
}

func newDiskFS() *simos.FS {
	simos.UnmountAll()
	fs := simos.NewFS("d")
	simos.Mount("d", fs)
	return fs
}

// openLog opens the log over the current image with the repository's code. A panic in the
// code under test (or an os.Exit / an armed crash trigger) is reported as an error of kind
// "panic": reopening must succeed, so it is a violation, not an infrastructure problem.
func openLog() (lg raft.Log, err error) {
	defer func() {
		if r := recover(); r != nil {
			if _, isCrash := r.(simos.CrashPanic); isCrash {
				panic(r)
			}
			lg, err = nil, fmt.Errorf("panic while reopening: %v", r)
		}
	}()
	return openLogUnsafe()
}

func openLogUnsafe() (raft.Log, error) {
	lg, err := raft.NewLog("/d")
	if err != nil {
		return nil, fmt.Errorf("NewLog: %w", err)
	}
	if err := lg.Open(); err != nil {
		return nil, fmt.Errorf("Open: %w", err)
	}
	if err := lg.Replay(); err != nil {
		return nil, fmt.Errorf("Replay: %w", err)
	}
	return lg, nil
}

func execLogOp(lg raft.Log, o diskOp) (raft.Log, error) {
	switch o.Kind {
	case "append":
		es := make([]*raft.LogEntry, len(o.Entries))
		for i, e := range o.Entries {
			es[i] = raft.NewLogEntry(e.Index, e.Term, e.Data, e.EntryType)
		}
		if len(es) == 1 {
			return lg, lg.AppendEntry(es[0])
		}
		return lg, lg.AppendEntries(es)
	case "truncate":
		return lg, lg.Truncate(o.Index)
	case "compact":
		return lg, lg.Compact(o.Index)
	case "discard":
		return lg, lg.DiscardEntries(o.Index, o.Term)
	case "reopen":
		if err := lg.Close(); err != nil {
			return lg, err
		}
		return openLog()
	}
	return lg, nil
}

// compareLog checks the reopened log against a model through the public API.
func compareLog(lg raft.Log, m *logModel) (why string) {
	defer func() {
		if r := recover(); r != nil {
			why = fmt.Sprintf("panic while reading the reopened log: %v", r)
		}
	}()
	return compareLogUnsafe(lg, m)
}

func compareLogUnsafe(lg raft.Log, m *logModel) string {
	if lg.LastIndex() != m.last() {
		return fmt.Sprintf("LastIndex %d, expected %d", lg.LastIndex(), m.last())
	}
	if lg.NextIndex() != m.last()+1 {
		return fmt.Sprintf("NextIndex %d, expected %d", lg.NextIndex(), m.last()+1)
	}
	if lg.Size() != len(m.entries) {
		return fmt.Sprintf("Size %d, expected %d", lg.Size(), len(m.entries))
	}
	if lg.LastTerm() != m.lastTerm() {
		return fmt.Sprintf("LastTerm %d, expected %d", lg.LastTerm(), m.lastTerm())
	}
	lo := uint64(0)
	if m.first > 2 {
		lo = m.first - 2
	}
	for i := lo; i <= m.last()+2; i++ {
		want := i > m.first && i <= m.last()
		if lg.Contains(i) != want {
			return fmt.Sprintf("Contains(%d)=%v, expected %v", i, lg.Contains(i), want)
		}
		e, err := lg.GetEntry(i)
		if want {
			if err != nil {
				return fmt.Sprintf("GetEntry(%d): %v", i, err)
			}
			w := m.raw[i-m.first-1]
			if e.Index != w.Index || e.Term != w.Term || e.EntryType != w.EntryType || !bytes.Equal(e.Data, w.Data) {
				return fmt.Sprintf("GetEntry(%d) = %d/%d/t%d/%dB, expected %d/%d/t%d/%dB", i, e.Index, e.Term, e.EntryType, len(e.Data), w.Index, w.Term, w.EntryType, len(w.Data))
			}
		} else if err == nil {
			return fmt.Sprintf("GetEntry(%d) succeeded, expected an error", i)
		}
	}
	return ""
}

func progString(prog []diskOp, upto int) string {
	var parts []string
	for i, o := range prog {
		if i > upto {
			break
		}
		parts = append(parts, o.String())
	}
	return strings.Join(parts, "; ")
}

// RunDisk runs the disk-only engine for one seed.
func RunDisk(cfg *Config) *Result {
	res := &Result{Seed: cfg.Seed, Profile: cfg.Profile, Probes: map[string]int64{}}
	simrt.S = nil
	simtime.ResetNoSim()
	d := &diskRun{res: res, images: map[uint64]struct{}{}, rng: simrt.NewRand(cfg.Seed, "disk")}
	d.lostModel = cfg.LostUnsynced
	thorough := cfg.Thorough
	length := cfg.MaxOps
	if length <= 0 {
		length = 1 + d.rng.Intn(12)
		if thorough && d.rng.Chance(0.3) {
			length = 12 + d.rng.Intn(28)
		}
	}
	var progText string
	switch cfg.Profile {
	case ProfDiskLog:
		prog := genLogProgram(d.rng, length)
		progText = progString(prog, len(prog))
		d.sweepLog(prog, thorough)
	case ProfDiskStore:
		progText = d.sweepStore(d.rng, length, thorough)
	}
	simos.UnmountAll()
	res.Probes["crash-points"] = d.crashPts
	res.Probes["distinct-images"] = int64(len(d.images))
	res.Probes["programs"] = 1
	res.Probes["reopens"] = d.reopens
	res.Probes["second-cycle-crashes"] = d.continued
	res.Faults = d.crashPts
	res.OpsApplied = length
	res.Steps = uint64(d.crashPts)
	h := uint64(cfg.Seed)*1099511628211 ^ uint64(d.crashPts)
	for k := range d.images {
		h ^= k
	}
	res.Hash = fmt.Sprintf("%016x", h)
	res.NStates = len(d.images)
	if len(progText) > 600 {
		progText = progText[:600] + " ..."
	}
	res.Sample = map[string]interface{}{
		"seed": cfg.Seed, "program": progText, "lost_unsynced_data_model": d.lostModel,
		"crash_points_enumerated": d.crashPts, "distinct_crash_images": len(d.images), "second_cycle_crashes": d.continued,
		"violations": len(res.Violations),
	}
	return res
}

func (d *diskRun) violate(prop, kind, cause, format string, args ...interface{}) {
	if len(d.res.Violations) >= 3 {
		return
	}
	d.res.Violations = append(d.res.Violations, Violation{Property: prop, Kind: kind, Cause: cause, Detail: fmt.Sprintf(format, args...)})
}

type opTrace struct {
	n    int64
	kind string
	size int
}

// runLogProgram executes prog from an empty disk; returns the number of calls
// that returned before the crash (len(prog) if none) and the storage-op trace.
func runLogProgram(fs *simos.FS, prog []diskOp, at int64, phase, torn int, trace *[]opTrace) (returned int, crashed bool, err error, pv interface{}) {
	if trace != nil {
		fs.OnOp = func(f *simos.FS, n int64, kind, p string, size int) {
			*trace = append(*trace, opTrace{n, kind, size})
		}
	}
	var lg raft.Log
	crashed, pv = withCrash(fs, at, phase, torn, func() {
		lg, err = openLog()
		if err != nil {
			return
		}
		for i, o := range prog {
			lg, err = execLogOp(lg, o)
			if err != nil {
				err = fmt.Errorf("op %d %s: %w", i, o.String(), err)
				return
			}
			returned = i + 1
		}
	})
	fs.OnOp = nil
	return
}

func (d *diskRun) crashPoints(trace []opTrace, thorough bool) [][3]int64 {
	var pts [][3]int64 // op number, phase, torn bytes
	for _, t := range trace {
		pts = append(pts, [3]int64{t.n, simos.Before, 0})
		if t.kind == simos.OpWrite && t.size > 1 {
			if t.size <= 12 || (thorough && t.size <= 2048) {
				for b := 1; b < t.size; b++ {
					pts = append(pts, [3]int64{t.n, simos.Torn, int64(b)})
				}
			} else if thorough {
				// A large write (snapshot data): every byte of both ends, a stride in between.
				seen := map[int]bool{}
				add := func(b int) {
					if b >= 1 && b < t.size && !seen[b] {
						seen[b] = true
						pts = append(pts, [3]int64{t.n, simos.Torn, int64(b)})
					}
				}
				for b := 1; b <= 64; b++ {
					add(b)
					add(t.size - b)
				}
				stride := t.size/128 + 1
				for b := 64 + d.rng.Intn(stride); b < t.size; b += stride {
					add(b)
				}
			} else {
				seen := map[int]bool{}
				cands := []int{1, 2, 3, 4, 5, t.size - 1, t.size / 2}
				for len(cands) < 10 {
					cands = append(cands, 1+d.rng.Intn(t.size-1))
				}
				for _, b := range cands {
					if b >= 1 && b < t.size && !seen[b] {
						seen[b] = true
						pts = append(pts, [3]int64{t.n, simos.Torn, int64(b)})
					}
				}
			}
		}
	}
	if len(trace) > 0 {
		pts = append(pts, [3]int64{trace[len(trace)-1].n, simos.After, 0})
	}
	return pts
}

func (d *diskRun) sweepLog(prog []diskOp, thorough bool) {
	// Reference execution: collects the storage-operation trace.
	fs := newDiskFS()
	var trace []opTrace
	ret, crashed, err, pv := runLogProgram(fs, prog, 0, 0, 0, &trace)
	if pv != nil {
		d.violate("C12", "panic", "fault-free", "program [%s] panicked without any fault: %v", progString(prog, len(prog)), pv)
		return
	}
	if err != nil || crashed || ret != len(prog) {
		d.violate("C12", "op-failed", "fault-free", "program [%s] failed without any fault: %v", progString(prog, len(prog)), err)
		return
	}
	// Models after each call.
	models := []*logModel{{}}
	for _, o := range prog {
		m := models[len(models)-1].clone()
		m.apply(o)
		models = append(models, m)
	}
	for _, pt := range d.crashPoints(trace, thorough) {
		d.crashPts++
		fs := newDiskFS()
		ret, crashed, err, pv := runLogProgram(fs, prog, pt[0], int(pt[1]), int(pt[2]), nil)
		where := fmt.Sprintf("crash at storage op %d phase %d torn %dB during call %d of [%s]", pt[0], pt[1], pt[2], ret, progString(prog, ret))
		if pv != nil {
			d.violate("C12", "panic", "during-program", "%s: panic %v", where, pv)
			return
		}
		if !crashed {
			if err != nil {
				d.violate("C12", "op-failed", "no-crash", "%s: %v", where, err)
				return
			}
			continue
		}
		if d.lostModel {
			rng := d.rng
			fs.DropUnsynced(func(k int64) int64 { return rng.Int63n(k) })
		}
		d.images[fs.Hash()] = struct{}{}
		fs.Thaw()
		// Allowed outcomes.
		var cands []*logModel
		cands = append(cands, models[ret])
		var inflight string
		if ret < len(prog) {
			o := prog[ret]
			inflight = o.Kind
			if o.Kind == "append" {
				for k := 1; k <= len(o.Entries); k++ {
					m := models[ret].clone()
					m.apply(diskOp{Kind: "append", Entries: o.Entries[:k]})
					cands = append(cands, m)
				}
			} else {
				cands = append(cands, models[ret+1])
			}
		}
		d.reopens++
		lg, err := openLog()
		if err != nil {
			d.violate("C12", "reopen-failed", classifyDiskErr(err), "%s: reopening the log failed: %v", where, err)
			return
		}
		var matched *logModel
		var why string
		for _, m := range cands {
			if why = compareLog(lg, m); why == "" {
				matched = m
				break
			}
		}
		if matched == nil {
			d.violate("C12", "reopen-mismatch", "inflight="+inflight, "%s: the reopened log matches none of the %d allowed states (vs. the state after all returned calls: %s)", where, len(cands), compareLog(lg, cands[0]))
			return
		}
		// The reopened log keeps working: more operations, a second crash, reopen again.
		if d.rng.Chance(0.35) || thorough {
			if msg := d.secondCycle(fs, lg, matched, where); msg != "" {
				return
			}
		} else {
			lg.Close()
		}
	}
}

// secondCycle continues on a recovered log: a few operations, a crash at a random point, reopen.
func (d *diskRun) secondCycle(fs *simos.FS, lg raft.Log, m *logModel, where string) string {
	// Generate a continuation from the model's current shape.
	n := 1 + d.rng.Intn(4)
	var prog []diskOp
	cur := m.clone()
	for i := 0; i < n; i++ {
		var o diskOp
		cnt := len(cur.entries)
		x := d.rng.Intn(10)
		switch {
		case x < 6 || cnt == 0:
			o.Kind = "append"
			k := 1 + d.rng.Intn(3)
			for j := 0; j < k; j++ {
				data := make([]byte, d.rng.Intn(40))
				o.Entries = append(o.Entries, raft.NewLogEntry(cur.last()+1+uint64(j), cur.lastTerm()+uint64(d.rng.Intn(2)), data, raft.LogEntryType(d.rng.Intn(3))))
			}
		case x < 8:
			o.Kind = "truncate"
			o.Index = cur.first + 1 + uint64(d.rng.Intn(cnt))
		default:
			o.Kind = "compact"
			o.Index = cur.first + 1 + uint64(d.rng.Intn(cnt))
		}
		cur.apply(o)
		prog = append(prog, o)
	}
	// First: does the continuation work at all on the recovered log?
	base := fs.OpCount
	at := base + 1 + int64(d.rng.Intn(12))
	phase := []int{simos.Before, simos.After, simos.Torn}[d.rng.Intn(3)]
	models := []*logModel{m}
	for _, o := range prog {
		x := models[len(models)-1].clone()
		x.apply(o)
		models = append(models, x)
	}
	returned := 0
	var err error
	crashed, pv := withCrash(fs, at, phase, 1+d.rng.Intn(6), func() {
		for i, o := range prog {
			lg, err = execLogOp(lg, o)
			if err != nil {
				return
			}
			returned = i + 1
		}
	})
	where2 := fmt.Sprintf("%s; then on the recovered log [%s] with a second crash at storage op +%d phase %d during call %d", where, progString(prog, returned), at-base, phase, returned)
	if pv != nil {
		d.violate("C12", "panic", "after-recovery", "%s: panic %v", where2, pv)
		return "x"
	}
	if err != nil {
		d.violate("C12", "op-failed", "after-recovery", "%s: operation on the recovered log failed: %v", where2, err)
		return "x"
	}
	if !crashed {
		if why := compareLog(lg, models[len(models)-1]); why != "" {
			d.violate("C12", "recovered-log-wrong", "after-recovery", "%s: after the continuation the log is wrong: %s", where2, why)
			return "x"
		}
		// Clean close and reopen must also preserve everything.
		lg.Close()
		lg2, err := openLog()
		if err != nil {
			d.violate("C12", "reopen-failed", "after-recovery-"+classifyDiskErr(err), "%s: clean reopen failed: %v", where2, err)
			return "x"
		}
		if why := compareLog(lg2, models[len(models)-1]); why != "" {
			d.violate("C12", "reopen-mismatch", "after-recovery", "%s: after a clean close/reopen: %s", where2, why)
			return "x"
		}
		lg2.Close()
		return ""
	}
	d.continued++
	d.crashPts++
	d.images[fs.Hash()] = struct{}{}
	fs.Thaw()
	var cands []*logModel
	cands = append(cands, models[returned])
	if returned < len(prog) {
		o := prog[returned]
		if o.Kind == "append" {
			for k := 1; k <= len(o.Entries); k++ {
				x := models[returned].clone()
				x.apply(diskOp{Kind: "append", Entries: o.Entries[:k]})
				cands = append(cands, x)
			}
		} else {
			cands = append(cands, models[returned+1])
		}
	}
	d.reopens++
	lg2, err := openLog()
	if err != nil {
		d.violate("C12", "reopen-failed", "second-cycle-"+classifyDiskErr(err), "%s: reopening failed: %v", where2, err)
		return "x"
	}
	for _, x := range cands {
		if compareLog(lg2, x) == "" {
			lg2.Close()
			return ""
		}
	}
	d.violate("C12", "reopen-mismatch", "second-cycle", "%s: the reopened log matches none of the allowed states: %s", where2, compareLog(lg2, cands[0]))
	return "x"
}

// ------------------------------------------------------------------ C13

type snapRec struct {
	Index, Term uint64
	Conf        []byte
	Data        []byte
}

type storeModel struct {
	term  uint64
	vote  string
	snaps []snapRec // closed successfully, in order
}

func (m *storeModel) clone() *storeModel {
	return &storeModel{term: m.term, vote: m.vote, snaps: append([]snapRec(nil), m.snaps...)}
}

func genStoreProgram(rng *simrt.Rand, length int, thorough bool) []diskOp {
	var prog []diskOp
	term := uint64(0)
	idx := uint64(0)
	many := rng.Chance(0.15)
	if many {
		length = 20 + rng.Intn(21) // up to 40 snapshots
	}
	for len(prog) < length {
		var o diskOp
		x := rng.Intn(100)
		switch {
		case !many && x < 35:
			term += uint64(rng.Intn(3))
			o.Kind = "setstate"
			o.Term = term
			o.Vote = []string{"", "n1", "n2", "node-with-a-longer-identifier"}[rng.Intn(4)]
		case many || x < 80:
			o.Kind = "snap"
			if !many && rng.Chance(0.25) {
				o.Kind = "snapdiscard"
			}
			idx += uint64(1 + rng.Intn(5))
			o.Index, o.Term = idx, term+1
			o.Conf = []byte(fmt.Sprintf("conf-%d", idx))
			nw := rng.Intn(4)
			for i := 0; i < nw; i++ {
				size := 0
				switch rng.Intn(5) {
				case 1:
					size = 1 + rng.Intn(16)
				case 2:
					size = 100 + rng.Intn(1000)
				case 3:
					if thorough || rng.Chance(0.3) {
						size = 32*1024 + rng.Intn(40000) // beyond one transfer chunk
					} else {
						size = 2000
					}
				case 4:
					size = 1
				}
				if many {
					size = rng.Intn(8)
				}
				b := make([]byte, size)
				for j := range b {
					b[j] = byte(idx) + byte(j)
				}
				o.Chunks = append(o.Chunks, b)
			}
			if rng.Chance(0.3) {
				o.ReadAt = 1 + rng.Intn(len(o.Chunks)+1)
			}
		case x < 90:
			o.Kind = "readsnap"
		default:
			o.Kind = "reopen"
		}
		prog = append(prog, o)
	}
	return prog
}

type stores struct {
	st raft.StateStorage
	sn raft.SnapshotStorage
}

func openStores() (s *stores, err error) {
	defer func() {
		if r := recover(); r != nil {
			if _, isCrash := r.(simos.CrashPanic); isCrash {
				panic(r)
			}
			s, err = nil, fmt.Errorf("panic while constructing the storages: %v", r)
		}
	}()
	return openStoresUnsafe()
}

func openStoresUnsafe() (*stores, error) {
	st, err := raft.NewStateStorage("/d")
	if err != nil {
		return nil, fmt.Errorf("NewStateStorage: %w", err)
	}
	sn, err := raft.NewSnapshotStorage("/d")
	if err != nil {
		return nil, fmt.Errorf("NewSnapshotStorage: %w", err)
	}
	return &stores{st, sn}, nil
}

func readSnapshot(sn raft.SnapshotStorage) (rec *snapRec, err error) {
	defer func() {
		if r := recover(); r != nil {
			if _, isCrash := r.(simos.CrashPanic); isCrash {
				panic(r)
			}
			rec, err = nil, fmt.Errorf("panic while reading the snapshot: %v", r)
		}
	}()
	return readSnapshotUnsafe(sn)
}

func readSnapshotUnsafe(sn raft.SnapshotStorage) (*snapRec, error) {
	f, err := sn.SnapshotFile()
	if err != nil {
		return nil, fmt.Errorf("SnapshotFile: %w", err)
	}
	if f == nil {
		return nil, nil
	}
	data, err := io.ReadAll(f)
	if err != nil {
		return nil, fmt.Errorf("reading snapshot: %w", err)
	}
	md := f.Metadata()
	if err := f.Close(); err != nil {
		return nil, fmt.Errorf("closing snapshot: %w", err)
	}
	return &snapRec{Index: md.LastIncludedIndex, Term: md.LastIncludedTerm, Conf: md.Configuration, Data: data}, nil
}

func (r *snapRec) same(o *snapRec) bool {
	if r == nil || o == nil {
		return r == nil && o == nil
	}
	return r.Index == o.Index && r.Term == o.Term && bytes.Equal(r.Conf, o.Conf) && bytes.Equal(r.Data, o.Data)
}

func (r *snapRec) String() string {
	if r == nil {
		return "no snapshot"
	}
	return fmt.Sprintf("snapshot %d/%d conf=%q %dB", r.Index, r.Term, r.Conf, len(r.Data))
}

// execStoreOp runs one call; closedOK reports that a snapshot Close returned.
func execStoreOp(s **stores, o diskOp, m *storeModel) error {
	switch o.Kind {
	case "setstate":
		if err := (*s).st.SetState(o.Term, o.Vote); err != nil {
			return err
		}
		m.term, m.vote = o.Term, o.Vote
	case "snap", "snapdiscard":
		f, err := (*s).sn.NewSnapshotFile(o.Index, o.Term, o.Conf)
		if err != nil {
			return err
		}
		var all []byte
		readDuring := func(k int) error {
			if o.ReadAt != k+1 {
				return nil
			}
			got, err := readSnapshot((*s).sn)
			if err != nil {
				return fmt.Errorf("while label %d is being written: %w", o.Index, err)
			}
			var want *snapRec
			if len(m.snaps) > 0 {
				want = &m.snaps[len(m.snaps)-1]
			}
			if !got.same(want) {
				return fmt.Errorf("while label %d is being written (%d of %d writes done), SnapshotFile returned %s, expected %s", o.Index, k, len(o.Chunks), got, want)
			}
			return nil
		}
		for k, c := range o.Chunks {
			if err := readDuring(k); err != nil {
				return err
			}
			if _, err := f.Write(c); err != nil {
				return err
			}
			all = append(all, c...)
		}
		if err := readDuring(len(o.Chunks)); err != nil {
			return err
		}
		if o.Kind == "snapdiscard" {
			return f.Discard()
		}
		if err := f.Close(); err != nil {
			return err
		}
		m.snaps = append(m.snaps, snapRec{Index: o.Index, Term: o.Term, Conf: o.Conf, Data: all})
	case "readsnap":
		got, err := readSnapshot((*s).sn)
		if err != nil {
			return err
		}
		var want *snapRec
		if len(m.snaps) > 0 {
			want = &m.snaps[len(m.snaps)-1]
		}
		if !got.same(want) {
			return fmt.Errorf("SnapshotFile returned %s, expected %s", got, want)
		}
	case "reopen":
		ns, err := openStores()
		if err != nil {
			return err
		}
		*s = ns
	}
	return nil
}

type nullSM struct{ restored int }

func (n *nullSM) Apply(op *raft.Operation) interface{} { return nil }
func (n *nullSM) Snapshot(w io.Writer) error         { return nil }
func (n *nullSM) Restore(r io.Reader) error {
	_, err := io.ReadAll(r)
	n.restored++
	return err
}
func (n *nullSM) NeedSnapshot(int) bool { return false }

// nullTransport is enough for NewRaft (never run).
type nullTransport struct{ raft.Transport }

func (d *diskRun) sweepStore(rng *simrt.Rand, length int, thorough bool) (text string) {
	prog := genStoreProgram(rng, length, thorough)
	text = progString(prog, len(prog))
	codec, _ := raft.NewTransport("127.0.0.1:1")
	for i := range prog {
		if prog[i].Kind == "snap" || prog[i].Kind == "snapdiscard" {
			// A real encoded configuration, so that NewRaft can decode the metadata.
			conf := raft.NewConfiguration(prog[i].Index, map[string]string{"n1": "127.0.0.1:1"})
			if b, err := codec.EncodeConfiguration(conf); err == nil {
				prog[i].Conf = b
			}
		}
	}
	run := func(fs *simos.FS, at int64, phase, torn int, trace *[]opTrace) (returned int, m *storeModel, crashed bool, err error, pv interface{}) {
		if trace != nil {
			fs.OnOp = func(f *simos.FS, n int64, kind, p string, size int) { *trace = append(*trace, opTrace{n, kind, size}) }
		}
		m = &storeModel{}
		crashed, pv = withCrash(fs, at, phase, torn, func() {
			var s *stores
			s, err = openStores()
			if err != nil {
				return
			}
			for i, o := range prog {
				if err = execStoreOp(&s, o, m); err != nil {
					err = fmt.Errorf("call %d %s: %w", i, o.String(), err)
					return
				}
				returned = i + 1
			}
		})
		fs.OnOp = nil
		return
	}
	fs := newDiskFS()
	var trace []opTrace
	ret, _, crashed, err, pv := run(fs, 0, 0, 0, &trace)
	if pv != nil || err != nil || crashed || ret != len(prog) {
		d.violate("C13", "op-failed", "fault-free", "program [%s] failed without any fault: err=%v panic=%v", progString(prog, len(prog)), err, pv)
		return
	}
	for _, pt := range d.crashPoints(trace, thorough) {
		d.crashPts++
		fs := newDiskFS()
		ret, m, crashed, err, pv := run(fs, pt[0], int(pt[1]), int(pt[2]), nil)
		where := fmt.Sprintf("crash at storage op %d phase %d torn %dB during call %d of [%s]", pt[0], pt[1], pt[2], ret, progString(prog, ret))
		if pv != nil {
			d.violate("C13", "panic", "during-program", "%s: panic %v", where, pv)
			return
		}
		if !crashed {
			if err != nil {
				d.violate("C13", "op-failed", "no-crash", "%s: %v", where, err)
				return
			}
			continue
		}
		if d.lostModel {
			fs.DropUnsynced(func(k int64) int64 { return rng.Int63n(k) })
		}
		d.images[fs.Hash()] = struct{}{}
		fs.Thaw()
		d.reopens++
		s, err := openStores()
		if err != nil {
			d.violate("C13", "reopen-failed", classifyDiskErr(err), "%s: constructing the storages over the crashed directory failed at the first attempt: %v", where, err)
			return
		}
		// Term/vote: the last returned value or the one being written.
		t, v, err := func() (t uint64, v string, err error) {
			defer func() {
				if r := recover(); r != nil {
					err = fmt.Errorf("panic in State(): %v", r)
				}
			}()
			return s.st.State()
		}()
		if err != nil {
			d.violate("C13", "state-unreadable", "state", "%s: State() failed: %v", where, err)
			return
		}
		okState := t == m.term && v == m.vote
		if !okState && ret < len(prog) && prog[ret].Kind == "setstate" {
			okState = t == prog[ret].Term && v == prog[ret].Vote
		}
		if !okState {
			d.violate("C13", "state-wrong", "state", "%s: State() = (%d,%q), last returned write was (%d,%q)", where, t, v, m.term, m.vote)
			return
		}
		// Snapshot: the most recent one whose Close returned (or the one whose Close was in flight).
		got, err := readSnapshot(s.sn)
		if err != nil {
			d.violate("C13", "snapshot-unreadable", "snapshot", "%s: %v", where, err)
			return
		}
		var want *snapRec
		if len(m.snaps) > 0 {
			want = &m.snaps[len(m.snaps)-1]
		}
		okSnap := got.same(want)
		if !okSnap && ret < len(prog) && prog[ret].Kind == "snap" {
			o := prog[ret]
			var all []byte
			for _, c := range o.Chunks {
				all = append(all, c...)
			}
			okSnap = got.same(&snapRec{Index: o.Index, Term: o.Term, Conf: o.Conf, Data: all})
		}
		if !okSnap {
			d.violate("C13", "snapshot-wrong", "snapshot", "%s: SnapshotFile() returned %s, the most recent successfully closed snapshot is %s", where, got, want)
			return
		}
		// A node can be constructed over the directory at the first attempt.
		if got == nil || codecOK(codec, got.Conf) {
			sm := &nullSM{}
			err := func() (err error) {
				defer func() {
					if r := recover(); r != nil {
						err = fmt.Errorf("panic while constructing the node: %v", r)
					}
				}()
				_, err = raft.NewRaft("n1", "127.0.0.1:1", sm, "/d", raft.WithTransport(codec), raft.WithLogLevel(logging.Error))
				return err
			}()
			if err != nil {
				d.violate("C13", "newraft-failed", classifyDiskErr(err), "%s: NewRaft over the crashed directory failed: %v", where, err)
				return
			}
		}
	}
	return text
}

func codecOK(codec raft.Transport, conf []byte) bool {
	_, err := codec.DecodeConfiguration(conf)
	return err == nil
}
