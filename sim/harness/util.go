package harness

import (
	"time"

	"github.com/jmsadair/raft/xsim/simrt"
)

func simrtWaitUntil(why string, cond func() bool) { simrt.WaitUntil(why, cond) }

func msDur(ms int64) time.Duration { return time.Duration(ms) * time.Millisecond }
