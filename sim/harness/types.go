// Package harness drives clusters of the rewritten raft package under the
// deterministic runtime: nodes, simulated network, storage recorders, model
// state machine, workload, fault plans, oracles.
package harness

import (
	"fmt"
	"sort"
	"strings"
)

// Violation is one oracle finding.
type Violation struct {
	Property string `json:"property"`
	Kind     string `json:"kind"`
	// Cause is the structured, replay-stable classification used to match known
	// findings and to keep the "same violation class" during minimisation.
	Cause  string `json:"cause"`
	Detail string `json:"detail"`
	Seq    uint64 `json:"seq"`
	TimeMs int64  `json:"time_ms"`
}

func (v Violation) Class() string { return v.Property + "/" + v.Kind + "/" + v.Cause }

func (v Violation) String() string {
	return fmt.Sprintf("%s %s [%s] t=%dms seq=%d: %s", v.Property, v.Kind, v.Cause, v.TimeMs, v.Seq, v.Detail)
}

// Step is one high-level plan step.
type Step struct {
	AtMs int64  `json:"at_ms"`
	Kind string `json:"kind"`
	// Node(s) the step acts on.
	Node  string   `json:"node,omitempty"`
	Nodes []string `json:"nodes,omitempty"`
	// Generic integer / string arguments, meaning depends on Kind.
	A   int64  `json:"a,omitempty"`
	B   int64  `json:"b,omitempty"`
	C   int64  `json:"c,omitempty"`
	Str string `json:"str,omitempty"`
	// Op: for a crash with A == 2, the kind of storage operation (rename, sync, remove, ...)
	// whose B-th next occurrence on the node triggers the crash.
	Op string `json:"op,omitempty"`
}

func (s Step) String() string {
	var b strings.Builder
	fmt.Fprintf(&b, "%dms %s", s.AtMs, s.Kind)
	if s.Node != "" {
		fmt.Fprintf(&b, " %s", s.Node)
	}
	if len(s.Nodes) > 0 {
		fmt.Fprintf(&b, " %v", s.Nodes)
	}
	if s.A != 0 || s.B != 0 || s.C != 0 {
		fmt.Fprintf(&b, " a=%d b=%d c=%d", s.A, s.B, s.C)
	}
	if s.Str != "" {
		fmt.Fprintf(&b, " %q", s.Str)
	}
	if s.Op != "" {
		fmt.Fprintf(&b, " op=%s", s.Op)
	}
	return b.String()
}

// Plan step kinds.
const (
	StepPartition  = "partition"   // Nodes = one side (symmetric cut between side and rest)
	StepOneWay     = "oneway"      // Node -> Nodes blocked (directed)
	StepHeal       = "heal"        // remove all cuts
	StepCrash      = "crash"       // Node; A = mode (0 now, 1 at k-th storage op), B = k, C = phase
	StepRestart    = "restart"     // Node
	StepRestartAll = "restartall"  // every down node
	StepClockJump  = "clockjump"   // Node; A = jump in ms (may be negative)
	StepClockRate  = "clockrate"   // Node; A/B = rate numerator / denominator
	StepStall      = "stall"       // Node; A = duration ms
	StepNetMode    = "netmode"     // A = drop permille, B = dup permille, C = max delay ms
	StepSlowLink   = "slowlink"    // Node, Nodes; A = extra one-way delay ms; B = 0 Node->Nodes, 1 Nodes->Node
	StepAddServer  = "addserver"   // Node = id to add; A = 1 voter, 0 non-voter; Str = target ("" = any)
	StepRemove     = "removeserver"
	StepStopStart  = "stopstart"   // Node; graceful Stop then Restart; A = pause ms; B: 0 Restart, 1 Start
	StepDiskErr    = "diskerr"     // Node; B = k-th storage op from now; A = 0 EIO 1 ENOSPC
	StepRedeliver  = "redeliver"   // re-deliver A recorded requests (stale duplicates)
	StepApi        = "api"         // Node; Str = call name; A,B = args
	StepBurst      = "burst"       // A = number of writes issued at once to the leader
	StepLossy      = "lossy"       // Node <-> Nodes: each message on these links is lost with probability A/1000 (until heal)
)

// Plan is an ordered list of steps.
type Plan []Step

func (p Plan) Sorted() Plan {
	q := append(Plan(nil), p...)
	sort.SliceStable(q, func(i, j int) bool { return q[i].AtMs < q[j].AtMs })
	return q
}
