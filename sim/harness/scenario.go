package harness

import (
	"github.com/jmsadair/raft"
	"github.com/jmsadair/raft/xsim/simrt"
)

// scenarioLaggingVoter constructs a shape that uniformly random fault plans reach too rarely
// (DESIGN.md section 9: biased plan generators): a voter Z falls behind behind a partition,
// the leadership changes meanwhile (so the new leader's next index for Z is past Z's log and
// its first request to Z is rejected), then the new leader L reaches Z only over a flaky link
// while another voter X cannot hear L at all but talks to Z promptly. Everything else (which
// nodes, all durations, loss rates, the client workload) is the PRNG's.
func (c *Cluster) scenarioLaggingVoter(untilNs int64) {
	cfg := c.Cfg
	rng := simrt.NewRand(cfg.Seed, "scenario")
	E := int64(cfg.ElectionMs)
	voters := func(except ...*Node) []*Node {
		var out []*Node
		for _, n := range c.Nodes {
			if !c.bootVoters[n.ID] || n.Inc == nil {
				continue
			}
			skip := false
			for _, e := range except {
				if e == n {
					skip = true
				}
			}
			if !skip {
				out = append(out, n)
			}
		}
		return out
	}
	for round := 0; round < 3 && c.Sim.Now() < untilNs && !c.healing; round++ {
		c.sleepMs(rng.Range(2*E, 6*E))
		l0 := c.uniqueLeader()
		if l0 == nil {
			continue
		}
		fs := voters(l0)
		if len(fs) < 2 {
			return
		}
		z := fs[rng.Intn(len(fs))]
		if c.healing {
			return
		}
		c.Rec.probe("scenario-lagging-voter-rounds")
		c.execStep(Step{Kind: StepPartition, Nodes: []string{z.ID}})
		// The generated client workload may be used up by now: a few writes of the scenario's
		// own make sure that Z really falls behind.
		for k := rng.Range(1, 5); k > 0 && l0.Inc != nil; k-- {
			c.submit(0, l0.Inc, raft.Replicated, int64(cfg.OpTimeoutMs))
			c.sleepMs(rng.Range(1, int64(cfg.HeartbeatMs)))
		}
		c.sleepMs(rng.Range(2*E, 5*E))
		if c.healing {
			return
		}
		// A new term of leadership begins while Z is away (the same node may win again: what
		// matters is that the new leader's next index for Z is past the end of Z's log). With
		// three voters that needs the old leader back, so a crashed one is restarted.
		oldTerm := uint64(0)
		for _, n := range c.upNodes() {
			if n.Inc.haveStatus && n.Inc.lastStatus.Term > oldTerm {
				oldTerm = n.Inc.lastStatus.Term
			}
		}
		if cur := c.uniqueLeader(); cur != nil && cur != z {
			// A stalled process is a message delay beyond (election timeout - lease), which the
			// lease property excludes; the lease profile therefore only crashes.
			if cfg.Profile == ProfLease || rng.Chance(0.5) {
				c.Stats.CrashNow++
				c.crashNode(cur, "time")
				c.sleepMs(rng.Range(E/2, 2*E))
				if c.healing {
					return
				}
				if cur.Inc == nil {
					c.Stats.Restarts++
					c.startNode(cur, nil)
				}
			} else {
				c.execStep(Step{Kind: StepStall, Node: cur.ID, A: rng.Range(2*E, 4*E)})
			}
		}
		var l *Node
		for i := 0; i < 40 && l == nil && c.Sim.Now() < untilNs && !c.healing; i++ {
			c.sleepMs(E / 4)
			if cur := c.uniqueLeader(); cur != nil && cur != z && cur.Inc.lastStatus.Term > oldTerm {
				l = cur
			}
		}
		if c.healing {
			return
		}
		if l == nil {
			c.execStep(Step{Kind: StepHeal})
			continue
		}
		c.Rec.probe("scenario-leadership-changed-while-voter-lagged")
		c.scenZ, c.scenL, c.scenRejectAt = z.ID, l.ID, 0
		// Clients of the scenario: reads of the profile's kind at L, writes at the others.
		myRound := round + 1
		c.scenRound = myRound
		crng := simrt.NewRand(cfg.Seed+uint64(myRound), "scenario-clients")
		c.Sim.GoProc(c.Sim.Harness, "scenario-clients", func() {
			for k := 0; k < 150 && c.scenRound == myRound && c.Sim.Now() < untilNs && !c.healing; k++ {
				c.sleepUs(crng.Range(500, 1000*int64(cfg.OpIntervalMs)+500))
				if c.scenRound != myRound || c.healing {
					return
				}
				if crng.Chance(0.5) {
					if l.Inc != nil {
						typ := raft.LeaseBasedReadOnly
						if cfg.LeaseReadPm == 0 {
							typ = raft.LinearizableReadOnly
						}
						c.submit(0, l.Inc, typ, int64(cfg.OpTimeoutMs))
					}
				} else {
					var others []*Node
					for _, n := range voters(l) {
						if n.Inc != nil {
							others = append(others, n)
						}
					}
					if len(others) > 0 {
						c.submit(0, others[crng.Intn(len(others))].Inc, raft.Replicated, int64(cfg.OpTimeoutMs))
					}
				}
			}
		})

		xs := voters(l, z)
		c.Net.healAll()
		c.Stats.Heals++
		if len(xs) > 0 {
			x := xs[rng.Intn(len(xs))]
			c.Net.block(l.ID, x.ID) // X cannot hear L (L still hears X)
			if rng.Chance(0.5) {
				c.Net.block(x.ID, l.ID)
			}
		}
		c.Stats.Partitions++
		if rng.Chance(0.4) {
			c.Net.setLossy(l.ID, z.ID, pick(rng, 600, 800, 900, 950))
			c.sleepMs(rng.Range(3*E, 10*E))
		} else {
			// A flapping link: up for about one or a few round trips, then down for a while.
			end := c.Sim.Now() + rng.Range(3*E, 10*E)*1_000_000
			for c.Sim.Now() < end && c.Sim.Now() < untilNs && !c.healing {
				c.Net.block(l.ID, z.ID)
				c.Net.block(z.ID, l.ID)
				c.sleepUs(rng.Range(E*100, E*1500))
				if c.healing {
					return
				}
				c.Net.unblock(l.ID, z.ID)
				c.Net.unblock(z.ID, l.ID)
				c.Stats.LinkFlaps++
				c.sleepUs(rng.Range(2*int64(cfg.MaxDelayUs), 8*int64(cfg.MaxDelayUs)+int64(cfg.HeartbeatMs)*500))
			}
		}
		c.scenZ, c.scenL = "", ""
		c.scenRound = 0
		if !c.healing {
			c.execStep(Step{Kind: StepHeal})
		}
	}
}

// scenarioSlowQuorum: the leader's quorum consists of a member on a slow path (both directions
// near the delay bound of the profile) and a member on a fast path that stops hearing the
// leader; the remaining voters cannot talk to the leader (or to the slow member) at all and
// campaign. The lease must still not outlive the promise of the fast member. Needs >= 4 voters.
func (c *Cluster) scenarioSlowQuorum(untilNs int64) {
	cfg := c.Cfg
	rng := simrt.NewRand(cfg.Seed, "scenario-slow-quorum")
	E := int64(cfg.ElectionMs)
	for round := 0; round < 4 && c.Sim.Now() < untilNs && !c.healing; round++ {
		c.sleepMs(rng.Range(2*E, 5*E))
		if c.healing {
			return
		}
		l := c.uniqueLeader()
		if l == nil || !c.bootVoters[l.ID] {
			continue
		}
		var fs []*Node
		for _, n := range c.Nodes {
			if c.bootVoters[n.ID] && n.Inc != nil && n != l {
				fs = append(fs, n)
			}
		}
		if len(fs) < 3 {
			return
		}
		// Shuffle: W fast, then the slow members up to a bare quorum, the rest are cut off.
		for i := len(fs) - 1; i > 0; i-- {
			j := rng.Intn(i + 1)
			fs[i], fs[j] = fs[j], fs[i]
		}
		quorum := (len(fs)+1)/2 + 1 // voters = len(fs)+1
		w := fs[0]
		slow := fs[1 : quorum-1]
		rest := fs[quorum-1:]
		c.Rec.probe("scenario-slow-quorum-rounds")
		extra := int64(cfg.DelayBoundMs) * 2_000_000 // capped at the bound by the network
		if extra == 0 {
			extra = rng.Range(E/4, E) * 1_000_000
		}
		for _, v := range slow {
			c.Net.setSlow(l.ID, v.ID, extra)
			c.Net.setSlow(v.ID, l.ID, extra)
			for _, x := range rest {
				c.Net.block(v.ID, x.ID)
				c.Net.block(x.ID, v.ID)
			}
		}
		for _, x := range rest {
			c.Net.block(l.ID, x.ID)
			c.Net.block(x.ID, l.ID)
		}
		c.Stats.Partitions++
		c.Stats.SlowLinks++
		// The campaigning side needs an election timeout to get going; then W stops hearing L.
		c.sleepMs(rng.Range(E, 3*E))
		if c.healing {
			return
		}
		c.Net.block(l.ID, w.ID)
		if rng.Chance(0.3) {
			c.Net.block(w.ID, l.ID)
		}
		myRound := round + 1
		c.scenRound = myRound
		crng := simrt.NewRand(cfg.Seed+uint64(myRound), "scenario-slow-quorum-clients")
		c.Sim.GoProc(c.Sim.Harness, "scenario-clients", func() {
			for k := 0; k < 200 && c.scenRound == myRound && c.Sim.Now() < untilNs && !c.healing; k++ {
				c.sleepUs(crng.Range(500, 1000*int64(cfg.OpIntervalMs)+500))
				if c.scenRound != myRound || c.healing {
					return
				}
				if crng.Chance(0.5) {
					if l.Inc != nil {
						typ := raft.LeaseBasedReadOnly
						if cfg.LeaseReadPm == 0 {
							typ = raft.LinearizableReadOnly
						}
						c.submit(0, l.Inc, typ, int64(cfg.OpTimeoutMs))
					}
				} else {
					t := rest[crng.Intn(len(rest))]
					if crng.Chance(0.3) {
						t = w
					}
					if t.Inc != nil {
						c.submit(0, t.Inc, raft.Replicated, int64(cfg.OpTimeoutMs))
					}
				}
			}
		})
		c.sleepMs(rng.Range(2*E, 4*E))
		c.scenRound = 0
		if c.healing {
			return
		}
		c.execStep(Step{Kind: StepHeal})
	}
}
