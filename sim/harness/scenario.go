package harness

import (
	"github.com/jmsadair/raft/xsim/simrt"
)

// scenarioLaggingVoter constructs a shape that uniformly random fault plans reach too rarely
// (DESIGN.md section 9: biased plan generators): a voter Z falls behind behind a partition,
// the leadership changes meanwhile (so the new leader's next index for Z is past Z's log and
// its first request to Z is rejected), then the new leader L reaches Z only over a flaky link
// while another voter X cannot hear L at all but talks to Z promptly. Everything else (which
// nodes, all durations, loss rates, the client workload) is the PRNG's.
func (c *Cluster) scenarioLaggingVoter(untilNs int64) {
	cfg := c.Cfg
	rng := simrt.NewRand(cfg.Seed, "scenario")
	E := int64(cfg.ElectionMs)
	voters := func(except ...*Node) []*Node {
		var out []*Node
		for _, n := range c.Nodes {
			if !c.bootVoters[n.ID] || n.Inc == nil {
				continue
			}
			skip := false
			for _, e := range except {
				if e == n {
					skip = true
				}
			}
			if !skip {
				out = append(out, n)
			}
		}
		return out
	}
	for round := 0; round < 3 && c.Sim.Now() < untilNs && !c.healing; round++ {
		c.sleepMs(rng.Range(2*E, 6*E))
		l0 := c.uniqueLeader()
		if l0 == nil {
			continue
		}
		fs := voters(l0)
		if len(fs) < 2 {
			return
		}
		z := fs[rng.Intn(len(fs))]
		if c.healing {
			return
		}
		c.Rec.probe("scenario-lagging-voter-rounds")
		c.execStep(Step{Kind: StepPartition, Nodes: []string{z.ID}})
		c.sleepMs(rng.Range(2*E, 5*E))
		if c.healing {
			return
		}
		// Leadership changes while Z is away.
		if cur := c.uniqueLeader(); cur != nil && cur != z {
			// A stalled process is a message delay beyond (election timeout - lease), which the
			// lease property excludes; the lease profile therefore only crashes.
			if cfg.Profile == ProfLease || rng.Chance(0.5) {
				c.Stats.CrashNow++
				c.crashNode(cur, "time")
			} else {
				c.execStep(Step{Kind: StepStall, Node: cur.ID, A: rng.Range(2*E, 4*E)})
			}
		}
		var l *Node
		for i := 0; i < 40 && l == nil && c.Sim.Now() < untilNs; i++ {
			c.sleepMs(E / 4)
			if cur := c.uniqueLeader(); cur != nil && cur != z && cur != l0 {
				l = cur
			}
		}
		if c.healing {
			return
		}
		if l == nil {
			c.execStep(Step{Kind: StepHeal})
			continue
		}
		c.Rec.probe("scenario-leadership-changed-while-voter-lagged")
		xs := voters(l, z)
		c.Net.healAll()
		c.Stats.Heals++
		if len(xs) > 0 {
			x := xs[rng.Intn(len(xs))]
			c.Net.block(l.ID, x.ID) // X cannot hear L (L still hears X)
			if rng.Chance(0.5) {
				c.Net.block(x.ID, l.ID)
			}
		}
		c.Stats.Partitions++
		if rng.Chance(0.4) {
			c.Net.setLossy(l.ID, z.ID, pick(rng, 600, 800, 900, 950))
			c.sleepMs(rng.Range(3*E, 10*E))
		} else {
			// A flapping link: up for about one or a few round trips, then down for a while.
			end := c.Sim.Now() + rng.Range(3*E, 10*E)*1_000_000
			for c.Sim.Now() < end && c.Sim.Now() < untilNs && !c.healing {
				c.Net.block(l.ID, z.ID)
				c.Net.block(z.ID, l.ID)
				c.sleepUs(rng.Range(E*100, E*1500))
				if c.healing {
					return
				}
				c.Net.unblock(l.ID, z.ID)
				c.Net.unblock(z.ID, l.ID)
				c.Stats.LinkFlaps++
				c.sleepUs(rng.Range(2*int64(cfg.MaxDelayUs), 8*int64(cfg.MaxDelayUs)+int64(cfg.HeartbeatMs)*500))
			}
		}
		if !c.healing {
			c.execStep(Step{Kind: StepHeal})
		}
	}
}
