package harness

import "github.com/jmsadair/raft"

// stickyWindow is the C16 monitor (filled in by window.go).
type stickyWindow struct {
	c *Cluster
}

func (w *stickyWindow) onStatus(inc *Incarnation, prev, st raft.Status, had bool) {}
func (w *stickyWindow) finish()                                                 {}

func (c *Cluster) extraTasks(faultEndNs int64) {}

func (c *Cluster) execExtraStep(st Step) {}
