package harness

import (
	"fmt"
	"strings"
	"time"

	"github.com/jmsadair/raft"
	"github.com/jmsadair/raft/xsim/simrt"
)

// callOn runs fn as a task of inc's process and parks the caller until it is
// done (ok=false if the process died first).
func (c *Cluster) callOn(inc *Incarnation, name string, fn func()) (ok bool) {
	done := false
	t := c.Sim.GoProc(inc.Proc, inc.Name()+"/"+name, func() {
		fn()
		done = true
	})
	if t == nil {
		return false
	}
	simrtWaitUntil("call "+name, func() bool { return done || inc.Node.Inc != inc })
	return done
}

// goOn runs fn as a task of inc's process without waiting.
func (c *Cluster) goOn(inc *Incarnation, name string, fn func()) {
	c.Sim.GoProc(inc.Proc, inc.Name()+"/"+name, fn)
}

// setupNonVoters starts the designated non-voting members empty (Start without
// Bootstrap, as the repository's tests do) and asks whoever leads to add them.
func (c *Cluster) setupNonVoters(untilNs int64) {
	cfg := c.Cfg
	var todo []*Node
	for _, n := range c.Nodes {
		if n.NonVoter {
			c.startNode(n, nil)
			todo = append(todo, n)
		}
	}
	for len(todo) > 0 && c.Sim.Now() < untilNs && !c.healing {
		c.sleepMs(int64(cfg.HeartbeatMs))
		l := c.believedLeader()
		if l == nil {
			continue
		}
		inc := l.Inc
		n := todo[0]
		conf, ok := c.configuration(inc)
		if ok {
			if _, member := conf.Members[n.ID]; member {
				c.Rec.probe("nonvoter-added")
				todo = todo[1:]
				continue
			}
		}
		c.Stats.MembershipCalls++
		c.callOn(inc, "addnonvoter", func() {
			f := inc.Raft.AddServer(n.ID, n.Addr, false, msDur(int64(cfg.HeartbeatMs)))
			f.Await()
		})
	}
}

func (c *Cluster) extraTasks(faultEndNs int64) {
	cfg := c.Cfg
	if cfg.Membership {
		c.Sim.GoProc(c.Sim.Harness, "membership-client", func() { c.membershipClient(faultEndNs) })
	}
	if cfg.ApiFuzz {
		for _, n := range c.Nodes {
			if n.Spare {
				continue
			}
			node := n
			c.Sim.GoProc(c.Sim.Harness, "apifuzz-"+n.ID, func() { c.apiFuzzer(node, faultEndNs) })
		}
	}
	if cfg.Scenario == "slow-quorum" {
		c.Sim.GoProc(c.Sim.Harness, "scenario-slow-quorum", func() { c.scenarioSlowQuorum(faultEndNs) })
	}
	if cfg.Scenario == "lagging-voter" {
		c.Sim.GoProc(c.Sim.Harness, "scenario-lagging-voter", func() { c.scenarioLaggingVoter(faultEndNs) })
	}
	if cfg.StickyWindow {
		c.window = &stickyWindow{c: c}
		c.Sim.GoProc(c.Sim.Harness, "sticky-window", func() { c.window.run(faultEndNs) })
	}
}

func (c *Cluster) execExtraStep(st Step) {}

// ------------------------------------------------------------------ C09 membership workload

// ConfCall is one membership request in the recorded history.
type ConfCall struct {
	ID        int
	Kind      string // add-nonvoter, add-voter, promote, remove
	Node      string
	Voter     bool
	Target    *Incarnation
	TermAt    uint64
	InvokeNs  int64
	TimeoutMs int64
	Returned  bool
	ReturnNs  int64
	OK        bool
	ErrKind   string
	Result    raft.Configuration
	// The configuration entry this call appended (0 if none).
	AppendedIndex uint64
	AppendedTerm  uint64
	AppliedAtNs   int64 // when the target applied AppendedIndex while still leader of TermAt (0 = never seen)
	AppliedSeq    uint64
	ReturnSeq     uint64
}

func confErrKind(err error) string {
	switch {
	case err == nil:
		return ""
	case err == raft.ErrNotLeader:
		return "not-leader"
	case err == raft.ErrTimeout:
		return "timeout"
	case err == raft.ErrPendingConfiguration:
		return "pending"
	case err == raft.ErrNoCommitThisTerm:
		return "no-commit-this-term"
	}
	return "other:" + err.Error()
}

// membershipCall issues AddServer/RemoveServer on inc and records the outcome.
func (c *Cluster) membershipCall(inc *Incarnation, kind string, n *Node, voter bool, timeoutMs int64, wait bool) *ConfCall {
	r := c.Rec
	call := &ConfCall{ID: len(r.ConfCalls) + 1, Kind: kind, Node: n.ID, Voter: voter, Target: inc, TimeoutMs: timeoutMs, InvokeNs: c.Sim.Now()}
	if inc.haveStatus {
		call.TermAt = inc.lastStatus.Term
	}
	r.ConfCalls = append(r.ConfCalls, call)
	c.Stats.MembershipCalls++
	body := func() {
		r.ev("confcall %d %s %s voter=%v at %s", call.ID, kind, n.ID, voter, inc.Name())
		r.curConfCall[c.Sim.Cur()] = call
		var f raft.Future[raft.Configuration]
		if kind == "remove" {
			f = inc.Raft.RemoveServer(n.ID, msDur(timeoutMs))
		} else {
			f = inc.Raft.AddServer(n.ID, n.Addr, voter, msDur(timeoutMs))
		}
		delete(r.curConfCall, c.Sim.Cur())
		if simrt.Dead() {
			return
		}
		if call.AppendedIndex != 0 {
			inc.pendingConf = append(inc.pendingConf, call)
		}
		res := f.Await()
		if simrt.Dead() {
			return
		}
		call.Returned = true
		call.ReturnNs = c.Sim.Now()
		call.ReturnSeq = r.seq
		if err := res.Error(); err != nil {
			call.ErrKind = confErrKind(err)
			r.ev("confreturn %d err=%s", call.ID, call.ErrKind)
		} else {
			call.OK = true
			call.Result = res.Success()
			c.Stats.MembershipOK++
			r.ev("confreturn %d ok conf=%s", call.ID, confString(call.Result))
		}
		r.onConfReturned(call)
	}
	if wait {
		c.callOn(inc, fmt.Sprintf("conf%d", call.ID), body)
	} else {
		c.goOn(inc, fmt.Sprintf("conf%d", call.ID), body)
	}
	return call
}

func (c *Cluster) membershipClient(untilNs int64) {
	cfg := c.Cfg
	rng := simrt.NewRand(cfg.Seed, "membership")
	for c.Sim.Now() < untilNs && !c.healing {
		// Back-to-back, or after a pause of up to a few election timeouts.
		if rng.Chance(0.35) {
			c.sleepMs(rng.Range(0, 2))
		} else {
			c.sleepMs(rng.Range(1, 3*int64(cfg.ElectionMs)))
		}
		if c.Sim.Now() >= untilNs || c.healing {
			return
		}
		up := c.upNodes()
		if len(up) == 0 {
			continue
		}
		var target *Node
		if rng.Chance(0.75) {
			target = c.believedLeader()
		}
		if target == nil {
			target = up[rng.Intn(len(up))]
		}
		inc := target.Inc
		conf, ok := c.configuration(inc)
		if !ok {
			continue
		}
		// Candidates for each action, from the target's own view.
		var spares, nonvoters, members []*Node
		for _, n := range c.Nodes {
			if _, in := conf.Members[n.ID]; in {
				members = append(members, n)
				if !conf.IsVoter[n.ID] {
					nonvoters = append(nonvoters, n)
				}
			} else {
				spares = append(spares, n)
			}
		}
		voters := len(members) - len(nonvoters)
		var kind string
		var n *Node
		voter := false
		x := rng.Intn(100)
		switch {
		case x < 30 && len(spares) > 0:
			kind, n = "add-nonvoter", spares[rng.Intn(len(spares))]
		case x < 45 && len(spares) > 0:
			kind, n, voter = "add-voter", spares[rng.Intn(len(spares))], true
		case x < 70 && len(nonvoters) > 0:
			kind, n, voter = "promote", nonvoters[rng.Intn(len(nonvoters))], true
		case len(members) > 1:
			kind, n = "remove", members[rng.Intn(len(members))]
			if rng.Chance(0.3) {
				n = target // remove the node the request is sent to (the leader, usually)
			}
			if voters <= 1 && conf.IsVoter[n.ID] {
				continue // nobody removes the last voter of a cluster
			}
		default:
			continue
		}
		if kind != "remove" && !n.Started {
			// New servers start empty (Start without Bootstrap), as in the repository's tests.
			c.startNode(n, nil)
		}
		if kind != "remove" && n.Inc == nil && rng.Chance(0.5) {
			c.Stats.Restarts++
			c.startNode(n, nil)
		}
		to := rng.Range(int64(cfg.HeartbeatMs), 6*int64(cfg.ElectionMs))
		c.membershipCall(inc, kind, n, voter, to, rng.Chance(0.5))
	}
}

// onConfReturned: C09(e) / C18 for membership futures.
func (r *Recorder) onConfReturned(call *ConfCall) {
	if !call.OK {
		return
	}
	conf := call.Result
	// The returned configuration contains the requested change.
	_, member := conf.Members[call.Node]
	switch call.Kind {
	case "remove":
		if member {
			r.violate("C09", "config-future", "change-missing", "RemoveServer(%s) at %s succeeded with a configuration that still contains it: %s", call.Node, call.Target.Name(), confString(conf))
		}
	default:
		if !member || conf.IsVoter[call.Node] != call.Voter {
			r.violate("C09", "config-future", "change-missing", "AddServer(%s, voter=%v) at %s succeeded with configuration %s", call.Node, call.Voter, call.Target.Name(), confString(conf))
		}
	}
	// ... and is a committed configuration: its index holds exactly that configuration in the registry.
	reg, ok := r.Reg[conf.Index]
	if !ok || !reg.Full || reg.Type != raft.ConfigurationEntry {
		r.violate("C09", "config-future", "not-committed", "%s at %s succeeded with configuration %s whose index is not a committed configuration entry", call.Kind, call.Target.Name(), confString(conf))
		return
	}
	if want, ok := r.confSeen[confKey{conf.Index, reg.Term}]; ok && !sameMembers(want, conf) {
		r.violate("C09", "config-future", "differs-from-committed", "%s at %s succeeded with %s but index %d committed %s", call.Kind, call.Target.Name(), confString(conf), conf.Index, confString(want))
	}
}

// confAppended is called when a configuration entry is appended inside a membership call.
func (r *Recorder) confAppended(inc *Incarnation, e *raft.LogEntry) {
	if call := r.curConfCall[r.c.Sim.Cur()]; call != nil {
		call.AppendedIndex, call.AppendedTerm = e.Index, e.Term
	}
}

// onConfiguration is called by the observer (membership profiles) with a fresh sample.
func (r *Recorder) onConfiguration(inc *Incarnation, conf raft.Configuration) {
	if conf.Index == inc.lastConfIdx && inc.haveConf {
		return
	}
	prev := inc.lastConfIdx
	inc.lastConfIdx = conf.Index
	inc.haveConf = true
	inc.lastConf = conf
	r.ev("conf %s %s", inc.Name(), confString(conf))
	r.probe("configuration-changes-observed")
	// A configuration in force at a committed configuration index equals the committed one.
	// (Only if the node's own log entry at that index is the committed one: a deposed leader
	// may still hold an uncommitted configuration of an older term at the same index.)
	own, have := inc.Node.Mirror.get(conf.Index)
	if reg, ok := r.Reg[conf.Index]; ok && have && own.Term == reg.Term && reg.Full && reg.Type == raft.ConfigurationEntry {
		if want, ok := r.confSeen[confKey{conf.Index, reg.Term}]; ok && !sameMembers(want, conf) {
			r.violate("C09", "config-divergence", "differs-from-committed", "%s uses configuration %s but index %d committed %s", inc.Name(), confString(conf), conf.Index, confString(want))
		}
	}
	_ = prev
}

// checkCommitQuorum: C09(f) — when a leader advances its commit index, the entry is in the
// persistent logs of a majority of the voters of the leader's own configuration.
func (r *Recorder) checkCommitQuorum(inc *Incarnation, st raft.Status) {
	conf := inc.lastConf
	if !inc.haveConf {
		return
	}
	m := inc.Node.Mirror
	e, ok := m.get(st.CommitIndex)
	if !ok {
		return
	}
	voters, have := 0, 0
	var holders []string
	for id, v := range conf.IsVoter {
		if !v {
			continue
		}
		voters++
		n := r.c.byID[id]
		if n == nil {
			continue
		}
		if x, ok := n.Mirror.get(st.CommitIndex); ok && x.Term == e.Term {
			have++
			holders = append(holders, id)
		} else if st.CommitIndex <= n.Mirror.first() && n.Mirror.first() > 0 {
			have++
			holders = append(holders, id)
		}
	}
	if voters > 0 && have*2 <= voters {
		r.violate("C09", "commit-without-quorum", "voters", "leader %s (term %d) advanced its commit index to %d, but only %v of the %d voters of its configuration %s hold that entry",
			inc.Name(), st.Term, st.CommitIndex, holders, voters, confString(conf))
	}
	r.probe("commit-quorum-checked")
}

// ------------------------------------------------------------------ C16 sticky window

type stickyWindow struct {
	c        *Cluster
	active   bool
	leader   *Node
	term     uint64
	majority map[string]bool
	minority []*Node
	violated bool
	started  bool
}

func (w *stickyWindow) onStatus(inc *Incarnation, prev, st raft.Status, had bool) {
	if !w.active || w.violated {
		return
	}
	id := inc.Node.ID
	if !w.majority[id] {
		return
	}
	if st.Term != w.term {
		w.violated = true
		w.c.Rec.violate("C16", "majority-term-increased", "term", "%s (in the prompt majority around leader %s) moved from term %d to %d during the window", inc.Name(), w.leader.ID, w.term, st.Term)
		return
	}
	if inc.Node == w.leader && st.State != raft.Leader {
		w.violated = true
		w.c.Rec.violate("C16", "leader-stepped-down", "state", "leader %s left the leader state (now %d) in term %d while in prompt contact with a majority", inc.Name(), st.State, st.Term)
	}
}

func (w *stickyWindow) finish() {}

// run drives the C16 scenario: stabilise, fix a prompt majority, torment the rest.
func (w *stickyWindow) run(untilNs int64) {
	c := w.c
	cfg := c.Cfg
	rng := simrt.NewRand(cfg.Seed, "window")
	// Phase 1: one leader, every node on its term, an entry of that term committed.
	deadline := c.Sim.Now() + 40*cfg.electionNs()
	for c.Sim.Now() < deadline {
		c.sleepMs(int64(cfg.HeartbeatMs))
		l := c.uniqueLeader()
		if l == nil {
			continue
		}
		ok := true
		for _, n := range c.Nodes {
			if n.Spare {
				continue
			}
			if n.Inc == nil || !n.Inc.haveStatus || n.Inc.lastStatus.Term != l.Inc.lastStatus.Term {
				ok = false
			}
		}
		if !ok {
			continue
		}
		// An entry of the leader's term is committed.
		e, have := l.Mirror.get(l.Inc.lastStatus.CommitIndex)
		if !have || e.Term != l.Inc.lastStatus.Term {
			continue
		}
		w.leader = l
		break
	}
	if w.leader == nil {
		c.Rec.probe("window-not-established")
		return
	}
	w.term = w.leader.Inc.lastStatus.Term
	w.majority = map[string]bool{w.leader.ID: true}
	var others []*Node
	for _, n := range c.Nodes {
		if !n.Spare && n != w.leader {
			others = append(others, n)
		}
	}
	for i := len(others) - 1; i > 0; i-- {
		j := rng.Intn(i + 1)
		others[i], others[j] = others[j], others[i]
	}
	need := cfg.Voters/2 + 1
	for _, n := range others {
		if len(w.majority) < need {
			w.majority[n.ID] = true
		} else {
			w.minority = append(w.minority, n)
		}
	}
	c.Net.Prompt = w.majority
	c.Net.PromptDelay = int64(cfg.HeartbeatMs) * 1_000_000 / 4
	w.active = true
	w.started = true
	c.Rec.ev("window-begin leader=%s term=%d majority=%d minority=%d", w.leader.ID, w.term, len(w.majority), len(w.minority))
	c.Rec.probe("window-established")
	if len(w.minority) == 0 {
		c.sleepUntil(untilNs)
		w.active = false
		return
	}
	ids := func(ns []*Node) []string {
		var out []string
		for _, n := range ns {
			out = append(out, n.ID)
		}
		return out
	}
	// Phase 2: arbitrary treatment of the minority.
	for c.Sim.Now() < untilNs && !c.healing {
		n := w.minority[rng.Intn(len(w.minority))]
		dur := rng.Range(int64(cfg.HeartbeatMs), 12*int64(cfg.ElectionMs))
		switch rng.Intn(8) {
		case 0, 1: // symmetric isolation of some minority nodes, any duration, rejoin at any instant
			side := []string{n.ID}
			if len(w.minority) > 1 && rng.Chance(0.4) {
				side = ids(w.minority)
			}
			c.execStep(Step{Kind: StepPartition, Nodes: side})
			c.Rec.probe("window-isolations")
			c.sleepMs(dur)
			c.execStep(Step{Kind: StepHeal})
			c.Rec.probe("window-rejoins")
		case 2: // one-directional: the node hears nobody but can talk (or the reverse)
			var all []string
			for _, o := range c.Nodes {
				if o != n && !o.Spare {
					all = append(all, o.ID)
				}
			}
			if rng.Chance(0.5) {
				for _, o := range all {
					c.Net.block(o, n.ID) // deaf: requests to it are lost, its own go out
				}
				c.Stats.Partitions++
			} else {
				c.execStep(Step{Kind: StepOneWay, Node: n.ID, Nodes: all})
			}
			c.Rec.probe("window-oneway-isolations")
			c.sleepMs(dur)
			c.execStep(Step{Kind: StepHeal})
			c.Rec.probe("window-rejoins")
		case 3: // crash and restart
			if n.Inc != nil {
				c.Stats.CrashNow++
				c.crashNode(n, "time")
			}
			c.sleepMs(rng.Range(1, 3*int64(cfg.ElectionMs)))
			if n.Inc == nil {
				c.Stats.Restarts++
				c.startNode(n, nil)
			}
			c.Rec.probe("window-minority-restarts")
		case 4: // fast clock: campaigns repeatedly
			c.execStep(Step{Kind: StepClockRate, Node: n.ID, A: int64(pick(rng, 110, 125, 150, 300)), B: 100})
			c.sleepMs(dur)
		case 5:
			c.execStep(Step{Kind: StepClockJump, Node: n.ID, A: rng.Range(0, 5*int64(cfg.ElectionMs))})
			c.sleepMs(rng.Range(1, int64(cfg.ElectionMs)))
		case 6:
			c.execStep(Step{Kind: StepStall, Node: n.ID, A: dur})
			c.sleepMs(dur)
		default:
			c.sleepMs(rng.Range(1, 2*int64(cfg.ElectionMs)))
		}
	}
	w.active = false
	c.Rec.ev("window-end")
}

// windowVoteRequest counts vote requests from the minority handled by the majority.
func (w *stickyWindow) voteRequestHandled(inc *Incarnation, m *Msg) {
	if w == nil || !w.active {
		return
	}
	if w.majority[inc.Node.ID] && m.From != nil && !w.majority[m.From.Node.ID] {
		w.c.Rec.probe("window-vote-requests-reached-majority")
		if !m.RV.Prevote {
			w.c.Rec.probe("window-real-vote-requests-reached-majority")
		}
	}
}

// ------------------------------------------------------------------ C18 API fuzzer

// ApiCall is one public API call made by the fuzzer.
type ApiCall struct {
	// AwaitNs is the longest time any Await inside the call took.
	AwaitNs int64
	ID       int
	Name     string
	Inc      *Incarnation
	InvokeNs int64
	Returned bool
	ReturnNs int64
	// For calls that await a future: the timeout they passed.
	TimeoutMs int64
	StateAt   raft.State
}

// awaitOp / awaitConf measure how long Await takes (virtual time).
func awaitOp(c *Cluster, call **ApiCall, f raft.Future[raft.OperationResponse]) raft.Result[raft.OperationResponse] {
	t0 := c.Sim.Now()
	res := f.Await()
	if d := c.Sim.Now() - t0; *call != nil && d > (*call).AwaitNs {
		(*call).AwaitNs = d
	}
	return res
}

func awaitConf(c *Cluster, call **ApiCall, f raft.Future[raft.Configuration]) raft.Result[raft.Configuration] {
	t0 := c.Sim.Now()
	res := f.Await()
	if d := c.Sim.Now() - t0; *call != nil && d > (*call).AwaitNs {
		(*call).AwaitNs = d
	}
	return res
}

func (c *Cluster) apiCall(inc *Incarnation, name string, timeoutMs int64, fn func()) *ApiCall {
	r := c.Rec
	call := &ApiCall{ID: len(r.ApiCalls) + 1, Name: name, Inc: inc, InvokeNs: c.Sim.Now(), TimeoutMs: timeoutMs}
	if inc.haveStatus {
		call.StateAt = inc.lastStatus.State
		r.probe(fmt.Sprintf("api-in-state-%d", call.StateAt))
	}
	r.ApiCalls = append(r.ApiCalls, call)
	r.probe("api-calls")
	c.goOn(inc, fmt.Sprintf("api%d-%s", call.ID, name), func() {
		r.ev("api %d %s at %s", call.ID, name, inc.Name())
		fn()
		if simrt.Dead() {
			return
		}
		call.Returned = true
		call.ReturnNs = c.Sim.Now()
		r.ev("apireturn %d", call.ID)
		// Every future resolves by its timeout: Await takes no longer than the timeout
		// (+ slack for virtual time during which the node's tasks were stalled).
		if timeoutMs >= 0 {
			limit := timeoutMs*1_000_000 + 1_000_000 + c.stallSlack(inc)
			if call.AwaitNs > limit {
				r.violate("C18", "future-late", strings.Fields(name)[0], "%s at %s: Await took %.3fms, the timeout was %dms", name, inc.Name(), float64(call.AwaitNs)/1e6, timeoutMs)
			}
		}
	})
	return call
}

// stallSlack: virtual time during which inc's tasks could not run (stalls) is not the API's fault.
func (c *Cluster) stallSlack(inc *Incarnation) int64 { return inc.stalledNs }

func (c *Cluster) apiFuzzer(n *Node, untilNs int64) {
	cfg := c.Cfg
	rng := simrt.NewRand(cfg.Seed, "api:"+n.ID)
	timeouts := []int64{0, 1, int64(cfg.HeartbeatMs), int64(cfg.ElectionMs), 20 * int64(cfg.ElectionMs)}
	for c.Sim.Now() < untilNs && !c.healing {
		c.sleepMs(rng.Range(0, int64(cfg.ElectionMs)/2))
		if c.Sim.Now() >= untilNs || c.healing {
			return
		}
		inc := n.Inc
		if inc == nil || inc.Raft == nil {
			continue
		}
		r := inc.Raft
		to := timeouts[rng.Intn(len(timeouts))]
		other := c.Nodes[rng.Intn(len(c.Nodes))]
		var cur *ApiCall
		choice := rng.Intn(16)
		if choice >= 9 && choice <= 13 && (!inc.booted || (n.lifecycle != nil && !n.lifecycle.Returned && n.lifecycle.Inc == inc)) {
			// One lifecycle call at a time per node (they are made by one administrator);
			// everything else keeps overlapping with it.
			choice = 14
		}
		switch choice {
		case 0:
			c.apiCall(inc, "Status+String", -1, func() {
				st := r.Status()
				_ = st.State.String()
			})
		case 1:
			c.apiCall(inc, "Configuration+String", -1, func() {
				conf := r.Configuration()
				_ = conf.String()
			})
		case 2:
			typ := raft.OperationType(rng.Intn(3))
			cur = c.apiCall(inc, "SubmitOperation", to, func() {
				_ = typ.String()
				f := r.SubmitOperation(makePayload(uint64(1<<40)+uint64(rng.Intn(1<<20)), 12), typ, msDur(to))
				res := awaitOp(c, &cur, f)
				_ = res.Error()
				res2 := awaitOp(c, &cur, f) // awaiting twice must return the same result
				if (res.Error() == nil) != (res2.Error() == nil) {
					c.Rec.violate("C18", "await-twice", "differs", "SubmitOperation at %s: the second Await returned a different result", inc.Name())
				}
			})
		case 3:
			cur = c.apiCall(inc, "SubmitOperation(invalid type)", to, func() {
				f := r.SubmitOperation([]byte("x"), raft.OperationType(7+rng.Intn(100)), msDur(to))
				if awaitOp(c, &cur, f).Error() == nil {
					c.Rec.violate("C18", "invalid-argument-accepted", "operation-type", "SubmitOperation with an invalid operation type succeeded at %s", inc.Name())
				}
			})
		case 4:
			var payload []byte
			if rng.Chance(0.5) {
				payload = []byte{}
			}
			cur = c.apiCall(inc, "SubmitOperation(empty payload)", to, func() {
				f := r.SubmitOperation(payload, raft.OperationType(rng.Intn(3)), msDur(to))
				awaitOp(c, &cur, f)
			})
		case 5:
			cur = c.apiCall(inc, "AddServer", to, func() {
				f := r.AddServer(other.ID, other.Addr, rng.Chance(0.5), msDur(to))
				awaitConf(c, &cur, f)
			})
		case 6:
			cur = c.apiCall(inc, "AddServer(unknown)", to, func() {
				f := r.AddServer("ghost", "127.0.0.1:9999", rng.Chance(0.5), msDur(to))
				awaitConf(c, &cur, f)
			})
		case 7:
			cur = c.apiCall(inc, "RemoveServer", to, func() {
				id := other.ID
				if rng.Chance(0.3) {
					id = "nobody"
				}
				f := r.RemoveServer(id, msDur(to))
				awaitConf(c, &cur, f)
			})
		case 8:
			c.apiCall(inc, "Bootstrap(again)", -1, func() {
				members := map[string]string{}
				for id, a := range c.bootMembers {
					members[id] = a
				}
				if rng.Chance(0.5) {
					delete(members, n.ID)
				}
				_ = r.Bootstrap(members)
			})
		case 9:
			n.lifecycle = c.apiCall(inc, "Start(again)", -1, func() { _ = r.Start() })
		case 10:
			n.lifecycle = c.apiCall(inc, "Restart(running)", -1, func() { _ = r.Restart() })
		case 11, 12:
			// Graceful stop, pause, then Restart (or, ill-ordered, Start).
			useStart := rng.Chance(0.3)
			pause := rng.Range(0, 2*int64(cfg.ElectionMs))
			name := "Stop+Restart"
			if useStart {
				name = "Stop+Start"
			}
			c.Stats.StopStarts++
			n.lifecycle = c.apiCall(inc, name, pause, func() { // (the pause is part of the call: it counts for the hang limit)
				r.Stop()
				if simrt.Dead() {
					return
				}
				c.sleepMs(pause)
				if simrt.Dead() {
					return
				}
				st := r.Status()
				_ = st.State.String()
				if useStart {
					_ = r.Start()
				} else {
					_ = r.Restart()
				}
			})
			c.sleepMs(pause + int64(cfg.ElectionMs))
		case 13:
			n.lifecycle = c.apiCall(inc, "Stop(twice)", -1, func() {
				r.Stop()
				if simrt.Dead() {
					return
				}
				r.Stop()
				_ = r.Restart()
			})
			c.sleepMs(int64(cfg.ElectionMs))
		default:
			c.apiCall(inc, "Status", -1, func() { _ = r.Status() })
		}
	}
}

// checkApiHangs: at the end of the run every call must have returned.
func (c *Cluster) checkApiHangs() {
	r := c.Rec
	now := c.Sim.Now()
	for _, call := range r.ApiCalls {
		if call.Returned || call.Inc.Node.Inc != call.Inc {
			continue
		}
		limit := call.InvokeNs + 4*c.Cfg.electionNs()
		if call.TimeoutMs > 0 {
			limit += call.TimeoutMs * 1_000_000
		}
		if now > limit+c.stallSlack(call.Inc) {
			r.violate("C18", "call-hang", strings.Fields(call.Name)[0], "%s at %s (node state %d), invoked at %dms, has not returned by %dms",
				call.Name, call.Inc.Name(), call.StateAt, call.InvokeNs/1_000_000, now/1_000_000)
		}
	}
	// Membership futures: a change that commits while its submitter is still leader resolves successfully.
	for _, call := range r.ConfCalls {
		if !call.Returned || call.OK || call.AppendedIndex == 0 || call.AppliedAtNs == 0 {
			continue
		}
		// The future was still pending (it failed later) when the entry was applied. A timeout that
		// fires within a heartbeat interval of the application may legitimately win the race; any
		// other error delivered after the application is wrong.
		late := call.AppliedAtNs+int64(c.Cfg.HeartbeatMs)*1_000_000 < call.ReturnNs
		if call.ErrKind != "timeout" {
			late = call.ReturnSeq > call.AppliedSeq
		}
		if late {
			r.violate("C18", "membership-future", "unresolved-after-commit", "%s(%s) at %s appended configuration %d in term %d, which the node applied at %dms while still leader of that term, yet the future failed with %s at %dms (timeout %dms)",
				call.Kind, call.Node, call.Target.Name(), call.AppendedIndex, call.AppendedTerm, call.AppliedAtNs/1_000_000, call.ErrKind, call.ReturnNs/1_000_000, call.TimeoutMs)
		}
	}
	_ = time.Second
}
