package harness

import "github.com/jmsadair/raft"

// stickyWindow is the C16 monitor (filled in by window.go).
type stickyWindow struct {
	c *Cluster
}

func (w *stickyWindow) onStatus(inc *Incarnation, prev, st raft.Status, had bool) {}
func (w *stickyWindow) finish()                                                 {}

func (c *Cluster) extraTasks(faultEndNs int64) {}

func (c *Cluster) execExtraStep(st Step) {}

// callOn runs fn as a task of inc's process and parks the caller until it is
// done (ok=false if the process died first).
func (c *Cluster) callOn(inc *Incarnation, name string, fn func()) (ok bool) {
	done := false
	t := c.Sim.GoProc(inc.Proc, inc.Name()+"/"+name, func() {
		fn()
		done = true
	})
	if t == nil {
		return false
	}
	simrtWaitUntil("call "+name, func() bool { return done || inc.Node.Inc != inc })
	return done
}

// setupNonVoters starts the designated non-voting members empty (Start without
// Bootstrap, as the repository's tests do) and asks whoever leads to add them.
func (c *Cluster) setupNonVoters(untilNs int64) {
	cfg := c.Cfg
	var todo []*Node
	for _, n := range c.Nodes {
		if n.NonVoter {
			c.startNode(n, nil)
			todo = append(todo, n)
		}
	}
	for len(todo) > 0 && c.Sim.Now() < untilNs && !c.healing {
		c.sleepMs(int64(cfg.HeartbeatMs))
		l := c.believedLeader()
		if l == nil {
			continue
		}
		inc := l.Inc
		n := todo[0]
		conf, ok := c.configuration(inc)
		if ok {
			if _, member := conf.Members[n.ID]; member {
				c.Rec.probe("nonvoter-added")
				todo = todo[1:]
				continue
			}
		}
		c.Stats.MembershipCalls++
		c.callOn(inc, "addnonvoter", func() {
			f := inc.Raft.AddServer(n.ID, n.Addr, false, msDur(int64(cfg.HeartbeatMs)))
			f.Await()
		})
	}
}
