package harness

import (
	"fmt"
	"sort"
	"strings"
	"syscall"

	"github.com/jmsadair/raft"
	"github.com/jmsadair/raft/xsim/simos"
	"github.com/jmsadair/raft/xsim/simrt"
)

var (
	errEIO    error = syscall.EIO
	errENOSPC error = syscall.ENOSPC
)

// pendingLogOp is a log mutation that was in flight when its process died.
type pendingLogOp struct {
	kind    string
	index   uint64
	term    uint64
	entries []MEntry
}

func (r *Recorder) logOpBegin(inc *Incarnation, kind string, index, term uint64, es []*raft.LogEntry) {
	p := &pendingLogOp{kind: kind, index: index, term: term}
	for _, e := range es {
		p.entries = append(p.entries, mentry(e))
	}
	r.pending[inc.Node] = p
}

func (r *Recorder) logOpEnd(inc *Incarnation) { delete(r.pending, inc.Node) }

// onLogReplayed compares what the reopened log recovered with the recorder's
// mirror of everything that had returned before the crash (C12 seen in situ).
func (c *Cluster) onLogReplayed(inc *Incarnation, old, now *Mirror) {
	r := c.Rec
	n := inc.Node
	p := r.pending[n]
	delete(r.pending, n)
	if inc.N == 1 && len(old.Entries) == 1 && old.Entries[0].Index == 0 {
		return // first boot
	}
	prop, kind := "C14", "reopen-mismatch"
	if c.Cfg.LostUnsynced {
		prop, kind = "C04", "durable-entry-lost"
	}
	// Candidate expected states.
	var cands []*Mirror
	cands = append(cands, old)
	if p != nil {
		switch p.kind {
		case "append":
			for k := 1; k <= len(p.entries); k++ {
				m := &Mirror{Entries: append(append([]MEntry(nil), old.Entries...), p.entries[:k]...)}
				cands = append(cands, m)
			}
		case "truncate":
			if p.index > old.first() && p.index <= old.last().Index {
				cands = append(cands, &Mirror{Entries: append([]MEntry(nil), old.Entries[:p.index-old.first()]...)})
			}
		case "compact":
			if p.index > old.first() && p.index <= old.last().Index {
				ne := append([]MEntry(nil), old.Entries[p.index-old.first():]...)
				ne[0].Placeholder = true
				cands = append(cands, &Mirror{Entries: ne})
			}
		case "discard":
			cands = append(cands, &Mirror{Entries: []MEntry{{Index: p.index, Term: p.term, Placeholder: true}}})
		}
	}
	if c.Cfg.LostUnsynced && (p == nil || p.kind == "append") {
		// Trailing entries that no returned fsync ever covered may be gone after a power loss
		// (a prefix of the un-synced bytes survives: if part of that tail is gone, so is an
		// append that was in flight behind it).
		for k := 1; k <= old.Unsynced && k < len(old.Entries); k++ {
			cands = append(cands, &Mirror{Entries: append([]MEntry(nil), old.Entries[:len(old.Entries)-k]...)})
		}
	}
	for _, m := range cands {
		if mirrorsEqual(m, now) {
			if m != old && p != nil {
				r.probe("reopen-saw-inflight-" + p.kind)
			} else if m != old {
				r.probe("reopen-lost-never-synced-tail")
			}
			return
		}
	}
	inflight := "none"
	if p != nil {
		inflight = p.kind
	}
	r.violate(prop, kind, "inflight="+inflight,
		"%s: reopened log is first=%d last=%d/%d (%d entries); before the crash all returned operations had left first=%d last=%d/%d (%d entries); in-flight operation: %s",
		inc.Name(), now.first(), now.last().Index, now.last().Term, len(now.Entries)-1,
		old.first(), old.last().Index, old.last().Term, len(old.Entries)-1, inflight)
}

func mirrorsEqual(a, b *Mirror) bool {
	if len(a.Entries) != len(b.Entries) || a.first() != b.first() {
		return false
	}
	for i := 1; i < len(a.Entries); i++ {
		if !a.Entries[i].same(b.Entries[i]) {
			return false
		}
	}
	// Boundary term (when known on both sides and the log is otherwise empty it decides LastTerm).
	if a.Entries[0].Term != 0 && b.Entries[0].Term != 0 && a.Entries[0].Term != b.Entries[0].Term {
		return false
	}
	return true
}

func (c *Cluster) onLogCompacted(inc *Incarnation, index uint64) {}

func (c *Cluster) onStatusChange(inc *Incarnation, prev, st raft.Status, had bool) {
	if c.window != nil {
		c.window.onStatus(inc, prev, st, had)
	}
	if st.State == raft.Leader && had && st.CommitIndex > prev.CommitIndex {
		if e, ok := inc.Node.Mirror.get(st.CommitIndex); ok && e.Type == raft.ConfigurationEntry {
			c.Rec.probe("config-entry-committed")
		}
	}
}

func (c *Cluster) onAEReplyDelivered(m *Msg) {
	// C17(b): remember voter replies delivered to a leader.
	if m.From != nil && m.From.Up {
		m.From.lastVoterReplyNs = lastVoterReply(c, m)
	}
}

func lastVoterReply(c *Cluster, m *Msg) int64 {
	prev := m.From.lastVoterReplyNs
	if c.bootVoters[m.ToID] && !c.Cfg.Membership {
		return c.Sim.Now()
	}
	return prev
}

// onWriteAcked: C04 at the acknowledgement of a replicated operation.
func (c *Cluster) onWriteAcked(op *ClientOp) {
	if c.Rec.ackedAt == nil {
		c.Rec.ackedAt = map[uint64]*ClientOp{}
	}
	c.Rec.ackedAt[op.LogIndex] = op
	c.checkOnMajorityDisk(op.LogIndex, op.LogTerm, hashBytes(op.Payload), fmt.Sprintf("acknowledgement of op%d", op.ID))
}

// checkOnMajorityDisk: the entry must be in the persistent logs of a majority of the voters.
func (c *Cluster) checkOnMajorityDisk(idx, term, hash uint64, when string) {
	if c.Cfg.Membership {
		return // the voter set is not static; C09 has its own commit-quorum oracle
	}
	r := c.Rec
	voters, have := 0, 0
	var holders []string
	deep := c.Cfg.ImageAtAck == 2 || (c.Cfg.ImageAtAck == 1 && (r.imageChecks < 8 || r.seq%7 == 0))
	for _, n := range c.Nodes {
		if !c.bootVoters[n.ID] {
			continue
		}
		voters++
		ok := false
		if e, found := n.Mirror.get(idx); found {
			ok = e.Term == term && (e.Placeholder || e.Hash == hash)
		} else if idx <= n.Mirror.first() && n.Mirror.first() > 0 {
			ok = true // compacted into a snapshot
		}
		if ok && deep {
			ok = c.durableHas(n, idx, term, hash)
		}
		if ok {
			have++
			holders = append(holders, n.ID)
		}
	}
	if deep {
		r.imageChecks++
	}
	if have*2 <= voters {
		cause := "mirror"
		if deep {
			cause = "durable-image"
		}
		r.violate("C04", "ack-without-majority", cause, "at the %s, index %d term %d is in the persistent log of %v only (%d of %d voters)", when, idx, term, holders, have, voters)
	}
	if voters%2 == 0 && have*2 == voters+2 {
		r.probe("acked-with-bare-majority-even")
	}
}

// durableHas decodes node n's durable log image (what survives a power loss right
// now) with the repository's own log reader.
func (c *Cluster) durableHas(n *Node, idx, term, hash uint64) bool {
	img := n.FS.Clone("img")
	img.DropUnsynced(func(k int64) int64 { return 0 })
	simos.Mount("img", img)
	defer simos.Unmount("img")
	lg, err := raft.NewLog("/img")
	if err != nil {
		return false
	}
	if err := lg.Open(); err != nil {
		return false
	}
	defer lg.Close()
	if err := lg.Replay(); err != nil {
		return false
	}
	if !lg.Contains(idx) {
		// Possibly compacted.
		return idx <= n.Mirror.first() && n.Mirror.first() > 0
	}
	e, err := lg.GetEntry(idx)
	if err != nil {
		return false
	}
	return e.Term == term && hashBytes(e.Data) == hash
}

func (r *Recorder) onFatal(inc *Incarnation, where, stack string) {
	n := inc.Node
	if n.FS.ErrFired > 0 && n.FS.OpCount-n.FS.ErrFiredOp <= 3 {
		// The repository's answer to a storage error is fail-stop: expected, not a finding.
		r.probe("fatal-after-injected-disk-error")
		n.FS.ErrFired = 0
		return
	}
	prop := "C14"
	cause := r.tainted(n, where, "F2", "F3")
	if r.c.Cfg.ApiFuzz {
		prop = "C18"
		// The API fuzzer also changes the membership; F4 (configurations adopted at different
		// times) can split the history there as in the membership profile. A node that then finds
		// its log truncated underneath a snapshot in progress aborts: a consequence, if a
		// divergence was already observed in this run.
		for cl := range r.seenClass {
			if strings.Contains(cl, "/committed-divergence/") || strings.Contains(cl, "/two-leaders/") || strings.Contains(cl, "/truncated-committed/") {
				cause += "+F4"
				break
			}
		}
	}
	r.violate(prop, "fatal", cause, "%s aborted with an internal fatal error in %s\n%s", inc.Name(), where, trimStack(stack))
}

// ------------------------------------------------------------------ snapshots

type visibleSnap struct {
	Node    string
	Index   uint64
	Term    uint64
	Hash    uint64
	Len     int
	Install bool
}

func (r *Recorder) snapNew(inc *Incarnation, f *SnapFileWrap) {
	md := f.Metadata()
	r.ev("snapnew %s label=%d/%d", inc.Name(), md.LastIncludedIndex, md.LastIncludedTerm)
}

func (r *Recorder) snapOpened(inc *Incarnation, f *SnapFileWrap) {
	md := f.Metadata()
	if ctx := r.ctxByTask[r.c.Sim.Cur()]; ctx != nil && ctx.Msg.Kind == KindIS && !ctx.restoring {
		// InstallSnapshot opens the snapshot right before it releases the lock for Restore.
		ctx.restoring = true
		inc.restoring++
	}
	inc.openedLabel = md.LastIncludedIndex
	r.ev("snapopen %s label=%d/%d", inc.Name(), md.LastIncludedIndex, md.LastIncludedTerm)
}

func (r *Recorder) snapSeekWhileWriting(inc *Incarnation, f *SnapFileWrap, off int64, whence int) {
	r.ev("snapseek %s off=%d whence=%d", inc.Name(), off, whence)
	f.writing = false // content can no longer be reconstructed from the writes
	r.probe("snapshot-writer-seeked")
}

func (r *Recorder) snapDiscarded(inc *Incarnation, f *SnapFileWrap) {
	md := f.Metadata()
	r.ev("snapdiscard %s label=%d/%d bytes=%d", inc.Name(), md.LastIncludedIndex, md.LastIncludedTerm, len(f.written))
	r.probe("partial-snapshot-discarded")
}

// snapClosing: a snapshot file is about to be closed (see SnapFileWrap.Close).
func (r *Recorder) snapClosing(inc *Incarnation, f *SnapFileWrap) {
	md := f.Metadata()
	if ctx := r.ctxByTask[r.c.Sim.Cur()]; ctx != nil && ctx.Msg.Kind == KindIS {
		return // installed snapshots are judged when (and if) the close returns
	}
	key := fmt.Sprintf("%d/%d", md.LastIncludedIndex, md.LastIncludedTerm)
	if r.visibleSnaps[key] == nil {
		r.visibleSnaps[key] = map[uint64]bool{}
	}
	r.visibleSnaps[key][hashBytes(f.written)] = true
	if ops, err := decodeSnapshot(f.written); err == nil && len(ops) > 0 && ops[len(ops)-1].Index > md.LastIncludedIndex {
		r.setTaint(inc.Node, "F1")
	}
}

// snapVisible: a snapshot file was closed (renamed into place): C10(a)(c).
func (r *Recorder) snapVisible(inc *Incarnation, f *SnapFileWrap) {
	md := f.Metadata()
	install := false
	if ctx := r.ctxByTask[r.c.Sim.Cur()]; ctx != nil && ctx.Msg.Kind == KindIS {
		install = true
	}
	h := hashBytes(f.written)
	r.ev("snapvisible %s label=%d/%d bytes=%d install=%v", inc.Name(), md.LastIncludedIndex, md.LastIncludedTerm, len(f.written), install)
	r.probe("snapshot-visible")
	if len(f.written) > 32*1024 {
		r.probe("snapshot-larger-than-chunk")
	}
	if md.LastIncludedIndex > inc.Node.snapLabel {
		inc.Node.snapLabel = md.LastIncludedIndex
	}
	key := fmt.Sprintf("%d/%d", md.LastIncludedIndex, md.LastIncludedTerm)
	if install {
		r.probe("snapshot-installed")
		// C10(c)/C11(e): installed bytes equal a snapshot with that label that some node produced.
		set := r.visibleSnaps[key]
		if set != nil && set[h] {
			// Forwarded as it is from a node that has exactly these bytes: whatever is wrong with
			// them (a mixed file, F3; a regressed state, F2) was that node's; the receiver carries
			// the taints on.
			if ctx := r.ctxByTask[r.c.Sim.Cur()]; ctx != nil && ctx.Msg.From != nil {
				for _, t := range []string{"F2", "F3"} {
					if ctx.Msg.From.Node.taint[t] {
						r.setTaint(inc.Node, t)
					}
				}
			}
		}
		if set == nil || !set[h] {
			r.violate("C11", "installed-bytes-differ", r.tainted(inc.Node, "no-such-snapshot", "F3"), "%s installed a snapshot labelled %s (%d bytes, hash %x) that no node ever produced with those bytes (known hashes for the label: %d)",
				inc.Name(), key, len(f.written), h, len(set))
		}
	}
	// Whatever became visible on a node is a snapshot that node has (and may forward later).
	if r.visibleSnaps[key] == nil {
		r.visibleSnaps[key] = map[uint64]bool{}
	}
	r.visibleSnaps[key][h] = true
	// C10(a): content = exactly the committed operations up to the label.
	ops, err := decodeSnapshot(f.written)
	if err != nil {
		r.violate("C10", "snapshot-garbage", r.tainted(inc.Node, "undecodable", "F3"), "%s made a snapshot labelled %s visible whose %d bytes do not decode: %v", inc.Name(), key, len(f.written), err)
		return
	}
	r.checkSnapshotContent(inc, md, ops, install)
	r.checkSnapshotConfig(inc, md)
}

func (r *Recorder) checkSnapshotContent(inc *Incarnation, md raft.SnapshotMetadata, ops []AppliedOp, install bool) {
	src := "local"
	if install {
		src = "installed"
	}
	label := md.LastIncludedIndex
	have := map[uint64]bool{}
	extra := 0
	for _, o := range ops {
		have[o.Index] = true
		if o.Index > label {
			extra++
		}
	}
	if extra > 0 {
		defer r.setTaint(inc.Node, "F1")
		r.violate("C10", "snapshot-label-mismatch", "extra-entries-"+src,
			"%s: snapshot labelled %d/%d (%s) contains %d operation(s) beyond its label (last contained index %d)",
			inc.Name(), label, md.LastIncludedTerm, src, extra, ops[len(ops)-1].Index)
	}
	r.checkOpsArePrefix(inc, ops, src+" snapshot labelled "+fmt.Sprint(label))
	// None missing: every committed operation entry up to the label is in the snapshot.
	missing := []uint64{}
	for i := uint64(1); i <= label; i++ {
		if e, ok := r.Reg[i]; ok && e.Full && e.Type == raft.OperationEntry && !have[i] {
			missing = append(missing, i)
		}
	}
	if len(missing) > 0 {
		cause := r.tainted(inc.Node, "missing-entries-"+src, "F2", "F3")
		if src == "installed" {
			// An installed snapshot comes from another node, possibly forwarded by a node that holds
			// a mixed file (F3) or a regressed state (F2): run-level attribution, and the receiver
			// carries the taint on (its state machine now lacks those operations).
			cause = r.taintedAny("missing-entries-"+src, "F2", "F3")
			for _, t := range []string{"F2", "F3"} {
				if r.anyTaint[t] {
					r.setTaint(inc.Node, t)
				}
			}
		}
		r.violate("C10", "snapshot-label-mismatch", cause,
			"%s: snapshot labelled %d/%d (%s) lacks committed operation(s) at %v", inc.Name(), label, md.LastIncludedTerm, src, missing)
	}
	if reg, ok := r.Reg[label]; ok && reg.Term != md.LastIncludedTerm {
		r.violate("C10", "snapshot-label-mismatch", "term-"+src, "%s: snapshot label %d/%d but index %d was committed with term %d", inc.Name(), label, md.LastIncludedTerm, label, reg.Term)
	}
}

// checkSnapshotConfig: the metadata carries the configuration committed at the label.
func (r *Recorder) checkSnapshotConfig(inc *Incarnation, md raft.SnapshotMetadata) {
	if inc.Tr == nil {
		return
	}
	got, err := inc.Tr.DecodeConfiguration(md.Configuration)
	if err != nil {
		r.violate("C10", "snapshot-config", "undecodable", "%s: snapshot %d carries an undecodable configuration: %v", inc.Name(), md.LastIncludedIndex, err)
		return
	}
	// Last configuration entry in the registry at or below the label.
	var want *raft.Configuration
	for i := md.LastIncludedIndex; i >= 1; i-- {
		if reg, ok := r.Reg[i]; ok && reg.Full && reg.Type == raft.ConfigurationEntry {
			if conf, ok2 := r.confSeen[confKey{i, reg.Term}]; ok2 {
				c := conf
				want = &c
			}
			break
		}
	}
	if want == nil {
		return
	}
	if !sameMembers(*want, got) {
		r.violate("C10", "snapshot-config", "not-committed-config", "%s: snapshot labelled %d carries configuration %s, the configuration committed at that index is %s",
			inc.Name(), md.LastIncludedIndex, confString(got), confString(*want))
	}
}

func sameMembers(a, b raft.Configuration) bool {
	if len(a.Members) != len(b.Members) {
		return false
	}
	for id, addr := range a.Members {
		if b.Members[id] != addr || a.IsVoter[id] != b.IsVoter[id] {
			return false
		}
	}
	return true
}

// ------------------------------------------------------------------ heal phase (C15) and final checks

// votersNow returns the voters of the latest committed configuration (the
// bootstrap voters while membership is static).
func (c *Cluster) votersNow() map[string]bool {
	if !c.Cfg.Membership && !c.Cfg.ApiFuzz {
		return c.bootVoters
	}
	r := c.Rec
	for i := r.RegMax; i >= 1; i-- {
		reg, ok := r.Reg[i]
		if !ok || !reg.Full || reg.Type != raft.ConfigurationEntry {
			continue
		}
		if conf, ok := r.confSeen[confKey{i, reg.Term}]; ok {
			out := map[string]bool{}
			for id, v := range conf.IsVoter {
				if v {
					out[id] = true
				}
			}
			return out
		}
	}
	return c.bootVoters
}

func (c *Cluster) majorityOfBootVotersUp() bool {
	voters := c.votersNow()
	v, up := 0, 0
	for _, n := range c.Nodes {
		if voters[n.ID] {
			v++
			if n.Inc != nil && n.Inc.Up {
				up++
			}
		}
	}
	return v > 0 && up*2 > v
}

func (c *Cluster) healPhase() {
	cfg := c.Cfg
	r := c.Rec
	c.healing = true
	r.ev("heal-begin")
	c.Net.healAll()
	c.Net.PromptAll = true
	c.Net.RedeliverPm = 0
	for _, n := range c.Nodes {
		n.FS.CrashAt = 0
		n.FS.CrashKind = ""
		n.FS.ErrAt = 0
		n.FS.SyncLatency = nil // a slow disk is a fault too
		if n.Inc != nil {
			p := n.Inc.Proc
			p.StallUntil = 0
			if p.RateNum != p.RateDen {
				now := c.Sim.Now()
				before := p.Offset + now/p.RateDen*p.RateNum + (now%p.RateDen)*p.RateNum/p.RateDen
				p.RateNum, p.RateDen = 1, 1
				p.Offset = before - now
			}
		}
	}
	// The last fault (sometimes): the whole cluster goes down at once, and an arbitrary bare
	// majority comes back - whatever terms, votes and log tails those nodes happen to hold.
	if !cfg.Membership && !cfg.ApiFuzz && !cfg.StickyWindow && c.faultRng.Intn(5) == 0 {
		r.probe("heal-after-full-cluster-crash")
		for _, n := range c.Nodes {
			if n.Inc != nil {
				c.crashNode(n, "time")
			}
		}
	}
	// Restart crashed nodes: all of them, or (sometimes) only enough for a bare majority, in
	// an arbitrary order.
	var down []*Node
	for _, n := range c.Nodes {
		if n.Inc == nil && n.Started {
			down = append(down, n)
		}
	}
	for i := len(down) - 1; i > 0; i-- {
		j := c.faultRng.Intn(i + 1)
		down[i], down[j] = down[j], down[i]
	}
	onlyMajority := !cfg.Membership && c.faultRng.Intn(3) == 0
	for _, n := range down {
		if onlyMajority && c.majorityOfBootVotersUp() {
			r.probe("heal-restarted-bare-majority")
			break
		}
		c.Stats.Restarts++
		c.startNode(n, nil)
		c.sleepMs(1)
	}
	healStart := c.Sim.Now()
	budget := int64(cfg.HealMs) * 1_000_000
	if budget == 0 {
		budget = 60 * cfg.electionNs()
	}
	deadline := healStart + budget
	var probeOp *ClientOp
	idleDone, idleDeadline, idleStuck, idleCause := false, int64(0), "", ""
	stage := "no-leader"
	detail := ""
	for c.Sim.Now() < deadline {
		c.sleepMs(int64(cfg.ElectionMs)/4 + 1)
		if !c.majorityOfBootVotersUp() {
			// A node died for a reason of its own (fatal): the premise of C15 is gone.
			r.probe("heal-premise-lost")
			r.ev("heal-discarded")
			return
		}
		leader := c.uniqueLeader()
		if leader == nil {
			stage, detail = "no-leader", c.statusLine()
			continue
		}
		// (a') without any new operation, every running member reaches the leader's applied
		// sequence: what was committed before is applied everywhere although nobody writes.
		if !idleDone && !cfg.Membership && !cfg.ApiFuzz {
			if idleDeadline == 0 {
				idleDeadline = c.Sim.Now() + 20*cfg.electionNs()
			}
			if who := c.laggard(leader, true); who == "" {
				idleDone = true
				r.probe("heal-converged-while-idle")
			} else if c.Sim.Now() < idleDeadline {
				stage, detail = "not-converged", "(no new operations submitted yet) "+who+"; "+c.statusLine()
				continue
			} else {
				idleDone = true
				idleStuck = who + "; " + c.statusLine()
				idleCause = c.livenessCause("not-converged")
			}
		}
		// (b) a fresh operation succeeds.
		if probeOp == nil || (probeOp.Returned && !probeOp.OK) {
			probeOp = c.submit(0, leader.Inc, raft.Replicated, int64(4*cfg.ElectionMs))
			stage, detail = "no-progress", "fresh operation not acknowledged: "+c.statusLine()
			continue
		}
		if !probeOp.Returned {
			if probeOp.Inc.Node.Inc != probeOp.Inc {
				probeOp = nil // target died
			}
			stage, detail = "no-progress", "fresh operation pending: "+c.statusLine()
			continue
		}
		// (d) every running member has the leader's applied sequence.
		if who := c.laggard(leader); who != "" {
			stage, detail = "not-converged", who+"; "+c.statusLine()
			continue
		}
		stage = "ok"
		break
	}
	r.ev("heal-end %s", stage)
	if idleStuck != "" {
		r.violate("C15", "liveness-not-converged-idle", idleCause, "20 election timeouts with one leader and no new operations: %s", idleStuck)
	}
	if stage != "ok" {
		cause := c.livenessCause(stage)
		if cfg.Membership {
			cause += "+membership"
			// Signature of known finding F4 for liveness: a running voter of the latest committed
			// configuration still has an older configuration in force (it holds the entry but has
			// not applied it), so it waits for votes of nodes that are no longer voters.
			latest := uint64(0)
			for i := r.RegMax; i >= 1 && latest == 0; i-- {
				if reg, ok := r.Reg[i]; ok && reg.Full && reg.Type == raft.ConfigurationEntry {
					latest = i
				}
			}
			voters := c.votersNow()
			for _, n := range c.upNodes() {
				if voters[n.ID] && n.Inc.haveConf && n.Inc.lastConfIdx < latest {
					cause += "+stale-config"
					break
				}
			}
			// ... or a running node has adopted (at restart: the latest configuration in its log)
			// a configuration that was never committed, while the others still use an older one.
			if !strings.Contains(cause, "+stale-config") {
				for _, n := range c.upNodes() {
					if n.Inc.haveConf && n.Inc.lastConfIdx > latest {
						cause += "+uncommitted-config-in-force"
						break
					}
				}
			}
		}
		r.violate("C15", "liveness-"+stage, cause, "%d election timeouts after faults stopped: %s", budget/cfg.electionNs(), detail)
		// C14 includes "the restarted node catches up with the leader": the same observation,
		// for a node that was killed (at least once) and created again over its directory.
		if stage == "not-converged" && c.lagging != nil && c.lagging.crashes > 0 && !cfg.Membership {
			r.violate("C14", "restarted-not-caught-up", cause, "%s was killed %d time(s) and restarted; %d election timeouts after faults stopped: %s",
				c.lagging.ID, c.lagging.crashes, budget/cfg.electionNs(), detail)
		}
	} else {
		r.probe("heal-converged")
		c.healedInMs = (c.Sim.Now() - healStart) / 1_000_000
		c.healConverged = true
	}
}

func (c *Cluster) livenessCause(stage string) string {
	// A structured cause: which kind of node is stuck.
	if stage == "no-progress" {
		// A voter left inconsistent by F2/F3 (see below) that is needed for the quorum blocks
		// commitment altogether: the same consequence, seen one step earlier.
		if l := c.uniqueLeader(); l != nil && l.Inc.haveStatus {
			for _, n := range c.upNodes() {
				if n != l && n.Inc.haveStatus && n.Inc.lastStatus.LastApplied < l.Inc.lastStatus.CommitIndex {
					if t := c.Rec.tainted(n, stage, "F2", "F3"); t != stage {
						return t
					}
				}
			}
		}
		return stage
	}
	if stage != "not-converged" {
		return stage
	}
	cause := "log-repair"
	for _, n := range c.Nodes {
		if n.Inc == nil || !n.Inc.haveStatus {
			continue
		}
		if n.Mirror.first() > 0 {
			cause = "with-snapshot"
		}
	}
	// A node left in an inconsistent state by the unlocked restore window of InstallSnapshot
	// (F2) or by a mixed snapshot file (F3) may never recover: that is their consequence.
	if c.lagging != nil {
		cause = c.Rec.tainted(c.lagging, cause, "F2", "F3")
	}
	return cause
}

func (c *Cluster) statusLine() string {
	var parts []string
	for _, n := range c.Nodes {
		if n.Inc == nil {
			if n.Started {
				parts = append(parts, n.ID+":down")
			}
			continue
		}
		s := n.Inc.lastStatus
		parts = append(parts, fmt.Sprintf("%s:t%d/s%d/c%d/a%d/log%d-%d/ops%d", n.ID, s.Term, s.State, s.CommitIndex, s.LastApplied, n.Mirror.first(), n.Mirror.last().Index, len(n.Inc.SM.Ops)))
	}
	return strings.Join(parts, " ")
}

// uniqueLeader returns the single up node reporting Leader whose term is the maximum
// among the members of its own configuration (a removed-but-running node may campaign
// with ever higher terms without anybody listening: that is C16's business), else nil.
func (c *Cluster) uniqueLeader() *Node {
	var leaders []*Node
	for _, n := range c.upNodes() {
		if n.Inc.haveStatus && n.Inc.lastStatus.State == raft.Leader {
			leaders = append(leaders, n)
		}
	}
	if len(leaders) != 1 {
		return nil
	}
	l := leaders[0]
	conf, ok := c.configuration(l.Inc)
	for _, n := range c.upNodes() {
		if !n.Inc.haveStatus {
			continue
		}
		if ok && (c.Cfg.Membership || c.Cfg.ApiFuzz) {
			if _, member := conf.Members[n.ID]; !member {
				continue
			}
		}
		if n.Inc.lastStatus.Term > l.Inc.lastStatus.Term {
			return nil
		}
	}
	return l
}

func (c *Cluster) laggard(leader *Node, idle ...bool) string {
	lsm := leader.Inc.SM
	conf, ok := c.configuration(leader.Inc)
	for _, n := range c.upNodes() {
		if n == leader {
			continue
		}
		if ok {
			if _, member := conf.Members[n.ID]; !member {
				continue
			}
		}
		// "Caught up" is about position, not content: equality of content at a
		// position is what C01/C10 check, and must not be reported twice here.
		sm := n.Inc.SM
		// (While nobody writes, only the applied index is compared: the index of the last operation
		// a state machine was handed may be stale on a node that showed known finding F1/F2.)
		if !n.Inc.haveStatus || n.Inc.lastStatus.LastApplied != leader.Inc.lastStatus.LastApplied || (len(idle) == 0 && sm.lastIndexSinceRestore != lsm.lastIndexSinceRestore) {
			c.lagging = n
			return fmt.Sprintf("%s has applied up to index %d (last operation %d), leader %s up to %d (last operation %d)",
				n.ID, n.Inc.lastStatus.LastApplied, sm.lastIndexSinceRestore, leader.ID, leader.Inc.lastStatus.LastApplied, lsm.lastIndexSinceRestore)
		}
	}
	return ""
}

// checkInstanceComplete: C10 "no operation is ever applied twice or skipped on any replica".
// The two halves are judged separately, so that a duplicate (a consequence of known findings
// F1/F2) early in the sequence does not hide an operation that is missing later.
func (r *Recorder) checkInstanceComplete(inc *Incarnation, a *authSeq) {
	if inc.SM == nil {
		return
	}
	ops := inc.SM.Ops
	// Applied twice / out of order: the sequence of applied indices is not strictly increasing,
	// or it holds an index that no committed operation has.
	for k, o := range ops {
		if k > 0 && o.Index <= ops[k-1].Index {
			// (Run-level attribution: a duplicate or a gap travels from node to node inside snapshots,
			// so the node that shows it need not be the node that showed the signature.)
			r.violate("C10", "replica-applied-twice", r.taintedAny("sequence", "F1", "F2"), "%s: its %d-th applied operation is index %d, after index %d (applied-twice)",
				inc.Name(), k+1, o.Index, ops[k-1].Index)
			break
		}
	}
	// Skipped: a committed operation below the last applied one is absent.
	have := make(map[uint64]bool, len(ops))
	max := uint64(0)
	for _, o := range ops {
		have[o.Index] = true
		if o.Index > max {
			max = o.Index
		}
	}
	for k, idx := range a.idx {
		if idx >= max {
			break
		}
		if !have[idx] {
			r.violate("C10", "replica-skipped", r.taintedAny("sequence", "F3", "F2r"), "%s: the %d-th committed operation (index %d) was never applied, although the replica applied up to index %d (skipped)",
				inc.Name(), k+1, idx, max)
			break
		}
	}
}

// checkConfigSteps: C09 "growing/shrinking by one server at a time" — consecutive committed
// configurations differ by at most one server (one addition, one removal or one change of the
// voter flag). A second change accepted while the first is still pending is cloned from a stale
// configuration and silently undoes it: the committed sequence then jumps by two.
func (r *Recorder) checkConfigSteps() {
	if !r.c.Cfg.Membership {
		return
	}
	var idxs []uint64
	for i, e := range r.Reg {
		if e.Full && e.Type == raft.ConfigurationEntry {
			if _, ok := r.confSeen[confKey{i, e.Term}]; ok {
				idxs = append(idxs, i)
			}
		}
	}
	sort.Slice(idxs, func(a, b int) bool { return idxs[a] < idxs[b] })
	for k := 1; k < len(idxs); k++ {
		a := r.confSeen[confKey{idxs[k-1], r.Reg[idxs[k-1]].Term}]
		b := r.confSeen[confKey{idxs[k], r.Reg[idxs[k]].Term}]
		diff := 0
		for id := range a.Members {
			if _, ok := b.Members[id]; !ok {
				diff++
			} else if a.IsVoter[id] != b.IsVoter[id] {
				diff++
			}
		}
		for id := range b.Members {
			if _, ok := a.Members[id]; !ok {
				diff++
			}
		}
		r.probe("committed-config-steps-checked")
		if diff > 1 {
			r.violate("C09", "config-step", "more-than-one-server", "committed configuration %s (index %d) is followed by %s (index %d): %d servers changed in one step",
				confString(a), idxs[k-1], confString(b), idxs[k], diff)
			return
		}
	}
}

func (c *Cluster) finalChecks() {
	r := c.Rec
	r.checkHistory()
	r.checkConfigSteps()
	a := r.buildAuth()
	for _, n := range c.Nodes {
		if n.Inc != nil {
			r.checkInstanceComplete(n.Inc, a)
		}
	}
	for _, inc := range r.deadIncs {
		r.checkInstanceComplete(inc, a)
	}
	if c.window != nil {
		c.window.finish()
	}
	// C18: nothing may be blocked forever. At this point every client future had
	// time to resolve (the heal phase is longer than any timeout).
	c.checkHangs()
	c.checkApiHangs()
	_ = sort.Strings
	_ = simrt.Dead
}

func (c *Cluster) checkHangs() {
	r := c.Rec
	now := c.Sim.Now()
	for _, op := range r.Ops {
		if op.Returned || op.InvokeSeq == 0 {
			continue
		}
		if op.Inc.Node.Inc != op.Inc {
			continue // its process died: the call died with it
		}
		// The timeout of a future runs from the moment SubmitOperation returned it. The call
		// itself can queue behind the node lock for a long time on an overloaded node (every
		// append holds the lock across its fsync): only after a heal phase that converged - the
		// workload had stopped and everything drained - is a call that never returned a hang.
		due := op.SubmittedNs + op.TimeoutMs*1_000_000
		if op.SubmittedNs == 0 {
			if !c.healConverged {
				continue
			}
			due = op.InvokeNs + op.TimeoutMs*1_000_000
		}
		if now > due+2*c.Cfg.electionNs() {
			r.violate("C18", "future-hang", fmt.Sprintf("type=%d", op.Type), "op%d (type %d) at %s invoked at %dms with timeout %dms has not resolved by %dms",
				op.ID, op.Type, op.Inc.Name(), op.InvokeNs/1_000_000, op.TimeoutMs, now/1_000_000)
		}
	}
}
