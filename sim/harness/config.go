package harness

// Config holds every knob of a run. A run is a pure function of
// (rewritten code, Config, Plan); low-level choices are drawn online from
// streams derived from Config.Seed.
type Config struct {
	Seed    uint64 `json:"seed"`
	Profile string `json:"profile"`

	Voters    int `json:"voters"`
	NonVoters int `json:"non_voters"`
	// Spare servers that can be added later by membership steps.
	Spares int `json:"spares"`

	ElectionMs  int `json:"election_ms"`
	HeartbeatMs int `json:"heartbeat_ms"`
	LeaseMs     int `json:"lease_ms"`

	// Network.
	MinDelayUs    int `json:"min_delay_us"`
	MaxDelayUs    int `json:"max_delay_us"`
	HeavyTailPm   int `json:"heavy_tail_pm"` // permille of messages delayed up to HeavyTailMs
	HeavyTailMs   int `json:"heavy_tail_ms"`
	DropPm        int `json:"drop_pm"`
	DupPm         int `json:"dup_pm"`
	ReplyLossPm   int `json:"reply_loss_pm"`
	ErrDelayMaxMs int `json:"err_delay_max_ms"`
	RedeliverPm   int `json:"redeliver_pm"` // chance per delivered request to be re-delivered much later

	// FifoIS: InstallSnapshot requests to one node are delivered and handled in the order
	// they were sent, never duplicated or re-delivered (keeps known finding F3, which needs
	// reordered chunks of different snapshots, out of profiles that are not about reordering).
	FifoIS bool `json:"fifo_is"`

	// Scheduler.
	StickyPm int `json:"sticky_pm"`
	// SpawnDelayPm / SpawnDelayUs: a goroutine started by the code under test begins to run only
	// after a virtual delay (probability in 1/1000, maximum in microseconds).
	SpawnDelayPm int `json:"spawn_delay_pm,omitempty"`
	SpawnDelayUs int `json:"spawn_delay_us,omitempty"`

	// Disk.
	DiskYield     bool `json:"disk_yield"`
	SyncLatencyUs int  `json:"sync_latency_us"` // max virtual fsync latency (0 = instant)
	LostUnsynced  bool `json:"lost_unsynced"`   // power-loss model on crash

	// State machine.
	SnapThreshold int `json:"snap_threshold"` // 0 = snapshots off
	FillerBytes   int `json:"filler_bytes"`
	ApplyDelayUs  int `json:"apply_delay_us"`
	SnapDelayUs   int `json:"snap_delay_us"`
	RestoreDelayUs int `json:"restore_delay_us"`

	// Workload.
	Clients       int `json:"clients"`
	OpIntervalMs  int `json:"op_interval_ms"` // mean think time per client
	OpTimeoutMs   int `json:"op_timeout_ms"`
	MaxOps        int `json:"max_ops"`
	PayloadBytes  int `json:"payload_bytes"`
	WritePm       int `json:"write_pm"`     // share of writes
	LinReadPm     int `json:"lin_read_pm"`  // share of linearizable reads
	LeaseReadPm   int `json:"lease_read_pm"`
	AnyNodePm     int `json:"any_node_pm"` // chance to target a random node instead of the believed leader

	// Phases.
	FaultMs int `json:"fault_ms"`
	HealMs  int `json:"heal_ms"` // 0 = 60 election timeouts

	// Restart style: 0 = NewRaft+Start over the directory (as the repo's tests), 1 = may use Stop+Restart.
	AutoRestartMs int `json:"auto_restart_ms"` // >0: crashed nodes restart after up to this delay

	// Feature switches for oracles/profiles.
	Membership bool `json:"membership"`
	ApiFuzz    bool `json:"api_fuzz"`
	NoHeal     bool `json:"no_heal"`
	// C16: window mode.
	StickyWindow bool `json:"sticky_window"`
	// C17: message delay bound in ms (0 = none) — enforced by the network.
	DelayBoundMs int `json:"delay_bound_ms"`
	// C04: decode durable images at every ack.
	ImageAtAck int `json:"image_at_ack"` // 0 never, 1 sampled, 2 always

	// Scenario: a biased shape driven by a dedicated task ("lagging-voter": a voter falls behind
	// behind a partition, the leadership changes meanwhile, then the new leader reaches the
	// lagging voter only over a flaky link while another voter cannot hear the leader at all).
	Scenario string `json:"scenario,omitempty"`

	// Thorough selects the deeper variant of a profile (disk engine: all byte offsets).
	Thorough bool `json:"thorough"`

	MaxSteps uint64 `json:"max_steps"`
	Trace    bool   `json:"trace"`
}

func (c *Config) electionNs() int64  { return int64(c.ElectionMs) * 1_000_000 }
func (c *Config) heartbeatNs() int64 { return int64(c.HeartbeatMs) * 1_000_000 }
