package harness

import (
	"errors"
	"fmt"

	"github.com/jmsadair/raft"
	"github.com/jmsadair/raft/xsim/simrt"
)

// Message kinds.
const (
	KindAE = iota
	KindRV
	KindIS
)

var kindName = [...]string{"AE", "RV", "IS"}

// Msg is one RPC in flight (request + its eventual response).
type Msg struct {
	ID   uint64
	Kind int
	From *Incarnation
	To   string // address
	ToID string

	AE raft.AppendEntriesRequest
	RV raft.RequestVoteRequest
	IS raft.InstallSnapshotRequest

	AEr raft.AppendEntriesResponse
	RVr raft.RequestVoteResponse
	ISr raft.InstallSnapshotResponse
	Err error

	caller    *simrt.Task
	answered  bool // caller already resumed
	handled   int  // times a handler ran
	Ghost     bool // stale re-delivery: nobody waits for the answer
	SentAt    int64
	HandledBy *Incarnation
	HandlerSeq uint64 // recorder seq at handler start
	SentSeq   uint64
}

// NetStats counts what the network actually did.
type NetStats struct {
	Sent, Delivered, DroppedReq, DroppedReply, Duplicated, Redelivered int64
	BlockedReq, BlockedReply, PeerDown, HeavyTail, Errors, LossyDropped, SlowLink int64
	ByKind                                                             [3]int64
}

// Net is the simulated network.
type Net struct {
	c   *Cluster
	rng *simrt.Rand
	seq uint64

	// blocked[from][to] directed cuts between node ids.
	blocked map[string]map[string]bool
	// lossy[from][to]: per-link loss probability (permille) of flaky links.
	lossy map[string]map[string]int
	// slow[from][to]: extra one-way delay (ns) of a slow link (a congested or rerouted path).
	slow map[string]map[string]int64

	// Mutable fault parameters (plan steps may change them).
	DropPm, DupPm, ReplyLossPm, HeavyTailPm, RedeliverPm int
	MinDelayNs, MaxDelayNs, HeavyTailNs, ErrDelayMaxNs   int64
	// PromptSet: links among these nodes are always prompt and lossless (C16 window, heal phase).
	Prompt      map[string]bool
	PromptAll   bool
	PromptDelay int64

	recent []*Msg // ring of delivered requests for stale re-delivery

	Stats NetStats
}

func newNet(c *Cluster) *Net {
	cfg := c.Cfg
	return &Net{
		c: c, rng: simrt.NewRand(cfg.Seed, "net"),
		blocked:     map[string]map[string]bool{},
		DropPm:      cfg.DropPm,
		DupPm:       cfg.DupPm,
		ReplyLossPm: cfg.ReplyLossPm,
		HeavyTailPm: cfg.HeavyTailPm,
		RedeliverPm: cfg.RedeliverPm,
		MinDelayNs:  int64(cfg.MinDelayUs) * 1000,
		MaxDelayNs:  int64(cfg.MaxDelayUs) * 1000,
		HeavyTailNs: int64(cfg.HeavyTailMs) * 1_000_000,
		ErrDelayMaxNs: int64(cfg.ErrDelayMaxMs) * 1_000_000,
		PromptDelay: 200_000,
	}
}

func (n *Net) block(from, to string) {
	m := n.blocked[from]
	if m == nil {
		m = map[string]bool{}
		n.blocked[from] = m
	}
	m[to] = true
}

func (n *Net) unblock(from, to string) { delete(n.blocked[from], to) }

func (n *Net) isBlocked(from, to string) bool { return n.blocked[from][to] }

func (n *Net) healAll() {
	n.blocked = map[string]map[string]bool{}
	n.lossy = nil
	n.slow = nil
}

func (n *Net) setSlow(from, to string, extraNs int64) {
	if n.slow == nil {
		n.slow = map[string]map[string]int64{}
	}
	if n.slow[from] == nil {
		n.slow[from] = map[string]int64{}
	}
	n.slow[from][to] = extraNs
}

func (n *Net) setLossy(a, b string, pm int) {
	if n.lossy == nil {
		n.lossy = map[string]map[string]int{}
	}
	for _, p := range [][2]string{{a, b}, {b, a}} {
		if n.lossy[p[0]] == nil {
			n.lossy[p[0]] = map[string]int{}
		}
		n.lossy[p[0]][p[1]] = pm
	}
}

// linkLost draws the fate of one message on a flaky link.
func (n *Net) linkLost(from, to string) bool {
	pm := n.lossy[from][to]
	if pm > 0 && n.rng.Intn(1000) < pm {
		n.Stats.LossyDropped++
		return true
	}
	return false
}

func (n *Net) prompt(a, b string) bool {
	if n.PromptAll {
		return true
	}
	return n.Prompt != nil && n.Prompt[a] && n.Prompt[b]
}

func (n *Net) delay(a, b string) int64 {
	if n.prompt(a, b) {
		return n.rng.Range(n.PromptDelay/4, n.PromptDelay)
	}
	if n.HeavyTailPm > 0 && n.rng.Intn(1000) < n.HeavyTailPm {
		n.Stats.HeavyTail++
		d := n.rng.Range(n.MaxDelayNs, n.HeavyTailNs)
		if b := int64(n.c.Cfg.DelayBoundMs) * 1_000_000; b > 0 && d > b {
			d = b
		}
		return d
	}
	d := n.rng.Range(n.MinDelayNs, n.MaxDelayNs)
	if extra := n.slow[a][b]; extra > 0 {
		n.Stats.SlowLink++
		d += n.rng.Range(extra/2, extra)
	}
	if b := int64(n.c.Cfg.DelayBoundMs) * 1_000_000; b > 0 && d > b {
		d = b
	}
	return d
}

func (n *Net) errDelay() int64 {
	if n.ErrDelayMaxNs <= 0 {
		return n.rng.Range(100_000, 1_000_000)
	}
	return n.rng.Range(100_000, n.ErrDelayMaxNs)
}

var errRPC = errors.New("simnet: rpc failed")

// fail resumes the caller with an error after a delay.
func (n *Net) fail(m *Msg, why string) {
	if m.Ghost || m.answered {
		return
	}
	m.answered = true
	n.Stats.Errors++
	s := n.c.Sim
	s.After(n.errDelay(), func() {
		m.Err = fmt.Errorf("%w: %s", errRPC, why)
		if m.caller != nil {
			s.MakeRunnable(m.caller)
		}
	})
}

func copyEntries(in []*raft.LogEntry) []*raft.LogEntry {
	if in == nil {
		return nil
	}
	out := make([]*raft.LogEntry, len(in))
	for i, e := range in {
		// Exactly the fields the real wire format carries (requests.go): no Offset.
		c := &raft.LogEntry{Index: e.Index, Term: e.Term, EntryType: e.EntryType}
		if len(e.Data) > 0 {
			c.Data = append([]byte(nil), e.Data...)
		}
		out[i] = c
	}
	return out
}

func copyBytes(b []byte) []byte {
	if len(b) == 0 {
		return nil
	}
	return append([]byte(nil), b...)
}

func (m *Msg) cloneRequest() *Msg {
	c := &Msg{Kind: m.Kind, From: m.From, To: m.To, ToID: m.ToID}
	switch m.Kind {
	case KindAE:
		c.AE = m.AE
		c.AE.Entries = copyEntries(m.AE.Entries)
	case KindRV:
		c.RV = m.RV
	case KindIS:
		c.IS = m.IS
		c.IS.Bytes = copyBytes(m.IS.Bytes)
		c.IS.Configuration = copyBytes(m.IS.Configuration)
	}
	return c
}

// roundTrip sends m and parks the calling task until the answer (or an error).
func (n *Net) roundTrip(m *Msg) {
	s := n.c.Sim
	n.seq++
	m.ID = n.seq
	m.caller = s.Cur()
	m.SentAt = s.Now()
	n.Stats.Sent++
	n.Stats.ByKind[m.Kind]++
	from := m.From.Node.ID
	dst := n.c.nodeByAddr(m.To)
	if dst != nil {
		m.ToID = dst.ID
	}
	n.c.Rec.netSend(m)
	switch {
	case dst == nil:
		n.fail(m, "no such address")
	case n.isBlocked(from, dst.ID):
		n.Stats.BlockedReq++
		n.fail(m, "partitioned")
	case !n.prompt(from, dst.ID) && n.DropPm > 0 && n.rng.Intn(1000) < n.DropPm:
		n.Stats.DroppedReq++
		n.fail(m, "request lost")
	case !n.prompt(from, dst.ID) && n.linkLost(from, dst.ID):
		n.fail(m, "request lost on a flaky link")
	default:
		d := n.delay(from, dst.ID)
		fifo := n.c.Cfg.FifoIS && m.Kind == KindIS
		if fifo {
			// Not before the previous InstallSnapshot request to the same node.
			if at := s.Now() + d; at <= dst.lastISAt {
				d = dst.lastISAt + 1000 - s.Now()
			}
			dst.lastISAt = s.Now() + d
		}
		s.After(d, func() { n.deliver(m) })
		if !fifo && !n.prompt(from, dst.ID) && n.DupPm > 0 && n.rng.Intn(1000) < n.DupPm {
			n.Stats.Duplicated++
			g := m.cloneRequest()
			g.Ghost = true
			g.ID = m.ID
			s.After(d+n.delay(from, dst.ID), func() { n.deliver(g) })
		}
	}
	simrt.Block("rpc")
}

// deliver runs inline in the scheduler (timer callback): it must not block.
func (n *Net) deliver(m *Msg) {
	s := n.c.Sim
	dst := n.c.nodeByAddr(m.To)
	if dst == nil || dst.Inc == nil || dst.Inc.Tr == nil || !dst.Inc.Tr.running {
		n.Stats.PeerDown++
		n.fail(m, "peer down")
		return
	}
	if m.From != nil && n.isBlocked(m.From.Node.ID, dst.ID) {
		n.Stats.BlockedReq++
		n.fail(m, "partitioned in flight")
		return
	}
	inc := dst.Inc
	n.Stats.Delivered++
	fifo := n.c.Cfg.FifoIS && m.Kind == KindIS
	if fifo {
		if inc.isBusy {
			inc.isQueue = append(inc.isQueue, m)
			return
		}
		inc.isBusy = true
	}
	if !m.Ghost && !fifo {
		// Remember for stale re-delivery.
		if n.RedeliverPm > 0 && n.rng.Intn(1000) < n.RedeliverPm {
			g := m.cloneRequest()
			g.Ghost = true
			g.ID = m.ID
			n.Stats.Redelivered++
			far := n.rng.Range(int64(n.c.Cfg.HeartbeatMs)*1_000_000, 4*n.c.Cfg.electionNs())
			s.After(far, func() { n.deliver(g) })
		}
		if len(n.recent) < 64 {
			n.recent = append(n.recent, m)
		} else {
			n.recent[int(m.ID%64)] = m
		}
	}
	m.handled++
	s.GoProc(inc.Proc, fmt.Sprintf("%s/h%s#%d", inc.Name(), kindName[m.Kind], m.ID), func() {
		n.handle(inc, m)
	})
}

// handle runs as a task of the destination incarnation.
func (n *Net) handle(inc *Incarnation, m *Msg) {
	tr := inc.Tr
	rec := n.c.Rec
	// The handler works on its own copy of the request, as a decoded wire message would be.
	req := m.cloneRequest()
	h := rec.handlerBegin(inc, m)
	var err error
	switch m.Kind {
	case KindAE:
		if tr.ae == nil {
			err = errors.New("no handler")
		} else {
			err = tr.ae(&req.AE, &m.AEr)
		}
	case KindRV:
		if tr.rv == nil {
			err = errors.New("no handler")
		} else {
			err = tr.rv(&req.RV, &m.RVr)
		}
	case KindIS:
		if tr.is == nil {
			err = errors.New("no handler")
		} else {
			err = tr.is(&req.IS, &m.ISr)
		}
	}
	if simrt.Dead() {
		return
	}
	if n.c.Cfg.FifoIS && m.Kind == KindIS {
		// Start the next queued InstallSnapshot request, if any.
		inc.isBusy = false
		if len(inc.isQueue) > 0 {
			next := inc.isQueue[0]
			inc.isQueue = inc.isQueue[1:]
			inc.isBusy = true
			next.handled++
			n.c.Sim.GoProc(inc.Proc, fmt.Sprintf("%s/h%s#%d", inc.Name(), kindName[next.Kind], next.ID), func() {
				n.handle(inc, next)
			})
		}
	}
	rec.handlerEnd(inc, m, h, err)
	if m.Ghost || m.answered {
		return
	}
	if err != nil {
		n.fail(m, "handler error: "+err.Error())
		return
	}
	// Reply path.
	s := n.c.Sim
	from := inc.Node.ID
	to := m.From.Node.ID
	switch {
	case n.isBlocked(from, to):
		n.Stats.BlockedReply++
		n.fail(m, "reply partitioned")
	case !n.prompt(from, to) && n.ReplyLossPm > 0 && n.rng.Intn(1000) < n.ReplyLossPm:
		n.Stats.DroppedReply++
		n.fail(m, "reply lost")
	case !n.prompt(from, to) && n.linkLost(from, to):
		n.fail(m, "reply lost on a flaky link")
	default:
		m.answered = true
		// Snapshot the response now; it travels by value.
		ae, rv, is := m.AEr, m.RVr, m.ISr
		s.After(n.delay(from, to), func() {
			m.AEr, m.RVr, m.ISr = ae, rv, is
			m.Err = nil
			rec.replyDelivered(m)
			if m.caller != nil {
				s.MakeRunnable(m.caller)
			}
		})
	}
}

// incarnationDied fails every RPC whose handler was running on inc.
func (n *Net) redeliverRecent(k int) {
	s := n.c.Sim
	for i := 0; i < k && len(n.recent) > 0; i++ {
		m := n.recent[n.rng.Intn(len(n.recent))]
		g := m.cloneRequest()
		g.Ghost = true
		g.ID = m.ID
		n.Stats.Redelivered++
		s.After(n.rng.Range(0, 2_000_000), func() { n.deliver(g) })
	}
}

// ------------------------------------------------------------------ transport

// SimTransport implements raft.Transport for one incarnation.
type SimTransport struct {
	net     *Net
	inc     *Incarnation
	addr    string
	running bool
	codec   raft.Transport

	ae func(*raft.AppendEntriesRequest, *raft.AppendEntriesResponse) error
	rv func(*raft.RequestVoteRequest, *raft.RequestVoteResponse) error
	is func(*raft.InstallSnapshotRequest, *raft.InstallSnapshotResponse) error
}

func newSimTransport(n *Net, inc *Incarnation, addr string) (*SimTransport, error) {
	// The real transport object is only used for its configuration codec; it opens
	// no socket until Run, which is never called.
	codec, err := raft.NewTransport(addr)
	if err != nil {
		return nil, err
	}
	return &SimTransport{net: n, inc: inc, addr: addr, codec: codec}, nil
}

func (t *SimTransport) Run() error      { t.running = true; return nil }
func (t *SimTransport) Shutdown() error { t.running = false; return nil }
func (t *SimTransport) Address() string { return t.addr }

func (t *SimTransport) RegisterAppendEntriesHandler(h func(*raft.AppendEntriesRequest, *raft.AppendEntriesResponse) error) {
	t.ae = h
}
func (t *SimTransport) RegisterRequestVoteHandler(h func(*raft.RequestVoteRequest, *raft.RequestVoteResponse) error) {
	t.rv = h
}
func (t *SimTransport) RegsiterInstallSnapshotHandler(h func(*raft.InstallSnapshotRequest, *raft.InstallSnapshotResponse) error) {
	t.is = h
}

func (t *SimTransport) EncodeConfiguration(c *raft.Configuration) ([]byte, error) {
	return t.codec.EncodeConfiguration(c)
}
func (t *SimTransport) DecodeConfiguration(b []byte) (raft.Configuration, error) {
	return t.codec.DecodeConfiguration(b)
}

var errClosed = errors.New("simnet: transport is closed")

func (t *SimTransport) SendAppendEntries(addr string, req raft.AppendEntriesRequest) (raft.AppendEntriesResponse, error) {
	if simrt.Dead() {
		return raft.AppendEntriesResponse{}, errClosed
	}
	if !t.running {
		return raft.AppendEntriesResponse{}, errClosed
	}
	m := &Msg{Kind: KindAE, From: t.inc, To: addr, AE: req}
	m.AE.Entries = copyEntries(req.Entries)
	t.net.roundTrip(m)
	return m.AEr, m.Err
}

func (t *SimTransport) SendRequestVote(addr string, req raft.RequestVoteRequest) (raft.RequestVoteResponse, error) {
	if simrt.Dead() {
		return raft.RequestVoteResponse{}, errClosed
	}
	if !t.running {
		return raft.RequestVoteResponse{}, errClosed
	}
	m := &Msg{Kind: KindRV, From: t.inc, To: addr, RV: req}
	t.net.roundTrip(m)
	return m.RVr, m.Err
}

func (t *SimTransport) SendInstallSnapshot(addr string, req raft.InstallSnapshotRequest) (raft.InstallSnapshotResponse, error) {
	if simrt.Dead() {
		return raft.InstallSnapshotResponse{}, errClosed
	}
	if !t.running {
		return raft.InstallSnapshotResponse{}, errClosed
	}
	m := &Msg{Kind: KindIS, From: t.inc, To: addr, IS: req}
	m.IS.Bytes = copyBytes(req.Bytes)
	m.IS.Configuration = copyBytes(req.Configuration)
	t.net.roundTrip(m)
	return m.ISr, m.Err
}
