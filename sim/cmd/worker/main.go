// Command worker executes simulation runs against the rewritten raft package it
// was built with. One line of JSON per run on stdout.
package main

import (
	"bufio"
	"encoding/json"
	"flag"
	"fmt"
	"os"
	"strings"
	"time"

	"verifsim/harness"
)

type replayFile struct {
	Property  string             `json:"property"`
	Profile   string             `json:"profile"`
	Seed      uint64             `json:"seed"`
	Config    *harness.Config    `json:"config"`
	Plan      harness.Plan       `json:"plan"`
	Violation *harness.Violation `json:"violation"`
	Hash      string             `json:"hash"`
	Note      string             `json:"note,omitempty"`
}

func main() {
	profile := flag.String("profile", "core", "profile")
	start := flag.Uint64("seed", 1, "first seed")
	count := flag.Int("n", 1, "number of runs (seeds start, start+stride, ...)")
	stride := flag.Uint64("stride", 1, "seed stride")
	budget := flag.Float64("budget", 0, "stop after this many wall seconds (0 = no limit)")
	replay := flag.String("replay", "", "replay file: run exactly its config and plan")
	trace := flag.Bool("trace", false, "include the event log in the output")
	perRunLimit := flag.Duration("run-limit", 120*time.Second, "wall-clock watchdog per run")
	twice := flag.Bool("twice", false, "run every seed twice and compare hashes (determinism self-test)")
	states := flag.Bool("states", false, "include the list of abstract cluster state hashes")
	dump := flag.Bool("dump", false, "print the generated config and plan of -seed and exit")
	thorough := flag.Bool("thorough", false, "deeper variant of the profile")
	profiles := flag.String("profiles", "", "comma-separated profiles; the profile of a seed is profiles[(seed-base) % n] (independent of the number of workers)")
	base := flag.Uint64("base", 0, "base seed for -profiles")
	flag.Parse()
	var plist []string
	if *profiles != "" {
		plist = strings.Split(*profiles, ",")
	}
	profileOf := func(seed uint64) string {
		if len(plist) == 0 {
			return *profile
		}
		return plist[(seed-*base)%uint64(len(plist))]
	}
	if *dump {
		cfg, plan := harness.Gen(*profile, *start)
		cfg.Thorough = *thorough
		if plan == nil {
			plan = harness.Plan{}
		}
		json.NewEncoder(os.Stdout).Encode(map[string]interface{}{"config": cfg, "plan": plan})
		return
	}

	out := bufio.NewWriter(os.Stdout)
	defer out.Flush()
	enc := json.NewEncoder(out)

	// Watchdog: a run that does not finish is an infrastructure failure (exit 2), never a verdict.
	progress := make(chan struct{}, 1)
	go func() {
		for {
			select {
			case <-progress:
			case <-time.After(*perRunLimit):
				out.Flush()
				fmt.Fprintf(os.Stderr, "worker: watchdog: a run exceeded %v of wall-clock time\n", *perRunLimit)
				os.Exit(2)
			}
		}
	}()

	if *replay != "" {
		data, err := os.ReadFile(*replay)
		if err != nil {
			fmt.Fprintln(os.Stderr, "worker:", err)
			os.Exit(2)
		}
		var rf replayFile
		if err := json.Unmarshal(data, &rf); err != nil {
			fmt.Fprintln(os.Stderr, "worker: bad replay file:", err)
			os.Exit(2)
		}
		rf.Config.Trace = *trace
		res := harness.Run(rf.Config, rf.Plan)
		res.States = nil
		enc.Encode(res)
		return
	}

	t0 := time.Now()
	for i := 0; i < *count; i++ {
		if *budget > 0 && time.Since(t0).Seconds() > *budget {
			break
		}
		seed := *start + uint64(i)*(*stride)
		cfg, plan := harness.Gen(profileOf(seed), seed)
		cfg.Trace = *trace
		cfg.Thorough = *thorough
		res := harness.Run(cfg, plan)
		if *twice {
			cfg2, plan2 := harness.Gen(profileOf(seed), seed)
			cfg2.Thorough = *thorough
			res2 := harness.Run(cfg2, plan2)
			if res2.Hash != res.Hash || res2.Steps != res.Steps {
				res.Infra = fmt.Sprintf("nondeterminism: seed %d gave hash %s/%d steps then %s/%d steps", seed, res.Hash, res.Steps, res2.Hash, res2.Steps)
			}
		}
		select {
		case progress <- struct{}{}:
		default:
		}
		if !*states {
			res.States = nil
		}
		enc.Encode(res)
		if res.Infra != "" {
			out.Flush()
			fmt.Fprintln(os.Stderr, "worker: infra:", res.Infra)
			os.Exit(2)
		}
	}
}
