package main

import (
	"fmt"

	"github.com/jmsadair/raft"
	"github.com/jmsadair/raft/xsim/simrt"
)

func main() {
	_ = raft.Leader
	s := simrt.New(1)
	s.Run(func() { fmt.Println("hello from root task") })
}
