// Package simos replaces package os in the code under test with an in-memory,
// journalled file system that can crash at any operation.
//
// One FS object is one node's disk. A crash freezes the FS: every later call made
// through a handle or task of the dead incarnation is inert. Thaw() gives the
// next incarnation the same tree with a new generation.
package simos

import (
	"errors"
	"fmt"
	"io"
	"io/fs"
	"path"
	"sort"
	"strings"
	"syscall"
	"time"

	"github.com/jmsadair/raft/xsim/simrt"
)

// Re-exported names the code under test uses through the "os" identifier.
type (
	FileInfo = fs.FileInfo
	FileMode = fs.FileMode
	DirEntry = fs.DirEntry
	PathError = fs.PathError
)

const (
	O_RDONLY = syscall.O_RDONLY
	O_WRONLY = syscall.O_WRONLY
	O_RDWR   = syscall.O_RDWR
	O_APPEND = syscall.O_APPEND
	O_CREATE = syscall.O_CREAT
	O_EXCL   = syscall.O_EXCL
	O_SYNC   = syscall.O_SYNC
	O_TRUNC  = syscall.O_TRUNC

	ModePerm = fs.ModePerm
	ModeDir  = fs.ModeDir

	PathSeparator = '/'
)

var (
	ErrNotExist = fs.ErrNotExist
	ErrExist    = fs.ErrExist
	ErrClosed   = fs.ErrClosed
	ErrInvalid  = fs.ErrInvalid
)

// Stderr swallows (or captures) what the code under test logs.
var Stderr io.Writer = io.Discard

// Stdout mirrors os.Stdout.
var Stdout io.Writer = io.Discard

// Exit is os.Exit: in simulation it kills only the calling simulated process.
func Exit(code int) {
	if simrt.S == nil {
		panic(ExitPanic{Code: code})
	}
	simrt.Exit(code)
}

// ExitPanic is raised by Exit outside a simulation (disk-only sweeps).
type ExitPanic struct{ Code int }

// CrashPanic is raised by the crash trigger outside a simulation.
type CrashPanic struct{}

// IsNotExist mirrors os.IsNotExist.
func IsNotExist(err error) bool { return errors.Is(err, fs.ErrNotExist) }

// IsExist mirrors os.IsExist.
func IsExist(err error) bool { return errors.Is(err, fs.ErrExist) }

// ------------------------------------------------------------------ inode

type inode struct {
	dir      bool
	data     []byte
	children map[string]*inode
	mode     fs.FileMode
	id       uint64

	// Durability bookkeeping (power-loss model): all bytes below lowDirty have
	// been covered by a Sync since they were last changed.
	lowDirty int64 // -1 = clean
	complex  bool  // overwritten in place below the synced length: no loss modelled
}

// Op kinds reported to hooks and used by crash triggers.
const (
	OpMkdir    = "mkdir"
	OpCreate   = "create"
	OpWrite    = "write"
	OpTruncate = "truncate"
	OpSync     = "sync"
	OpClose    = "close"
	OpRename   = "rename"
	OpRemove   = "remove"
)

// Phases of a crash trigger.
const (
	Before = 0
	After  = 1
	Torn   = 2 // inside a write: a prefix of the bytes reaches the file
)

// FS is one node's disk.
type FS struct {
	Name string
	root *inode
	gen  uint64
	ino  uint64

	Frozen bool

	// Mutating-operation counter and crash trigger.
	OpCount   int64
	CrashAt   int64 // crash when OpCount reaches this value (0 = off)
	CrashPh   int   // Before / After / Torn
	TornBytes int   // for Torn: number of bytes of the write that survive (<len)
	// CrashKind/CrashKindLeft: alternative trigger, "the CrashKindLeft-th next operation of this
	// kind" (rename, sync, remove ...): aims crashes at the boundaries between protocol steps.
	CrashKind     string
	CrashKindLeft int64
	OnCrash   func(f *FS)
	// OnOp is called for every mutating operation (before it takes effect).
	OnOp func(f *FS, n int64, kind string, p string, size int)

	// Error injection: when ErrAt == OpCount (after increment) the operation
	// fails with ErrKind (and a write may leave ErrPrefix bytes).
	ErrAt     int64
	ErrKind   error
	ErrPrefix int
	ErrFired  int
	ErrFiredOp int64 // OpCount when the injected error was returned

	// SyncLatency, if set, returns the virtual duration a Sync takes.
	SyncLatency func() int64

	// Yield makes mutating operations scheduling points.
	Yield bool

	// The last mutating operation (what a crash trigger interrupted).
	LastOpKind, LastOpPath string

	tmpSeq uint64
	// TmpName, if set, supplies the random part of CreateTemp/MkdirTemp names.
	TmpName func() string

	Stats Stats
}

// Stats counts what happened on this disk.
type Stats struct {
	Writes, Syncs, Renames, Removes, Creates, Truncates, Mkdirs int64
	BytesWritten                                                int64
}

// NewFS returns an empty disk.
func NewFS(name string) *FS {
	return &FS{Name: name, root: &inode{dir: true, children: map[string]*inode{}, mode: fs.ModeDir | 0o777, lowDirty: -1}, gen: 1}
}

var mounts = map[string]*FS{}

// Mount makes f the disk for every path whose first component is name.
func Mount(name string, f *FS) { mounts[strings.Trim(name, "/")] = f }

// Unmount removes a mount.
func Unmount(name string) { delete(mounts, strings.Trim(name, "/")) }

// UnmountAll clears the mount table.
func UnmountAll() { mounts = map[string]*FS{} }

func split(p string) (string, []string) {
	p = path.Clean("/" + p)
	parts := strings.Split(strings.TrimPrefix(p, "/"), "/")
	if len(parts) == 1 && parts[0] == "" {
		return "", nil
	}
	return parts[0], parts[1:]
}

func lookupFS(p string) (*FS, []string, error) {
	m, rest := split(p)
	f, ok := mounts[m]
	if !ok {
		return nil, nil, syscall.ENOENT
	}
	return f, rest, nil
}

// inert reports whether calls on f by the current caller must have no effect.
func (f *FS) inert() bool {
	if f.Frozen {
		return true
	}
	if simrt.S != nil && simrt.Dead() {
		return true
	}
	return false
}

// Thaw prepares the disk for the next incarnation after a crash.
func (f *FS) Thaw() {
	f.Frozen = false
	f.gen++
	f.CrashAt = 0
	f.CrashKind = ""
	f.ErrAt = 0
}

// crashNow freezes the disk and notifies the owner; does not return if the
// owner unwinds the caller.
func (f *FS) crashNow() {
	f.Frozen = true
	f.CrashAt = 0
	if f.OnCrash != nil {
		f.OnCrash(f)
		return
	}
	panic(CrashPanic{})
}

// step is called by every mutating operation before it takes effect. It returns
// (tornLen, err): tornLen >= 0 means "apply only that many bytes then crash".
func (f *FS) step(kind, p string, size int) (torn int, err error) {
	if f.Yield && simrt.S != nil {
		simrt.Yield()
		if f.inert() {
			return -1, errFrozen
		}
	}
	f.OpCount++
	f.LastOpKind, f.LastOpPath = kind, p
	if f.OnOp != nil {
		f.OnOp(f, f.OpCount, kind, p, size)
	}
	if f.CrashKind != "" && kind == f.CrashKind {
		f.CrashKindLeft--
		if f.CrashKindLeft <= 0 {
			f.CrashKind = ""
			f.CrashAt = f.OpCount
		}
	}
	if f.CrashAt != 0 && f.OpCount == f.CrashAt {
		switch f.CrashPh {
		case Before:
			f.crashNow()
			return -1, errFrozen
		case Torn:
			if kind == OpWrite && size > 0 {
				n := f.TornBytes
				if n >= size {
					n = size - 1
				}
				if n < 0 {
					n = 0
				}
				return n, nil
			}
			f.crashNow()
			return -1, errFrozen
		}
	}
	if f.ErrAt != 0 && f.OpCount == f.ErrAt {
		f.ErrFired++
		f.ErrFiredOp = f.OpCount
		return -1, f.ErrKind
	}
	return -1, nil
}

// stepAfter is called after a mutating operation took effect.
func (f *FS) stepAfter() {
	if f.CrashAt != 0 && f.OpCount == f.CrashAt && f.CrashPh == After {
		f.crashNow()
	}
}

var errFrozen = errors.New("simos: disk frozen (process crashed)")

func (f *FS) walk(parts []string) (*inode, error) {
	n := f.root
	for _, c := range parts {
		if !n.dir {
			return nil, syscall.ENOTDIR
		}
		ch, ok := n.children[c]
		if !ok {
			return nil, syscall.ENOENT
		}
		n = ch
	}
	return n, nil
}

func (f *FS) parent(parts []string) (*inode, string, error) {
	if len(parts) == 0 {
		return nil, "", syscall.EINVAL
	}
	d, err := f.walk(parts[:len(parts)-1])
	if err != nil {
		return nil, "", err
	}
	if !d.dir {
		return nil, "", syscall.ENOTDIR
	}
	return d, parts[len(parts)-1], nil
}

func (f *FS) newInode(dir bool, mode fs.FileMode) *inode {
	f.ino++
	n := &inode{dir: dir, mode: mode, id: f.ino, lowDirty: -1}
	if dir {
		n.children = map[string]*inode{}
		n.mode |= fs.ModeDir
	} else {
		n.lowDirty = 0
	}
	return n
}

func perr(op, p string, err error) error {
	if err == nil {
		return nil
	}
	return &fs.PathError{Op: op, Path: p, Err: err}
}

// ------------------------------------------------------------------ info

type fileInfo struct {
	name string
	size int64
	mode fs.FileMode
	dir  bool
}

func (i fileInfo) Name() string       { return i.name }
func (i fileInfo) Size() int64        { return i.size }
func (i fileInfo) Mode() fs.FileMode  { return i.mode }
func (i fileInfo) ModTime() time.Time { return time.Unix(0, simrt.Epoch).UTC() }
func (i fileInfo) IsDir() bool        { return i.dir }
func (i fileInfo) Sys() interface{}   { return nil }

// DirEntry methods.
func (i fileInfo) Type() fs.FileMode          { return i.mode.Type() }
func (i fileInfo) Info() (fs.FileInfo, error) { return i, nil }

func infoOf(name string, n *inode) fileInfo {
	return fileInfo{name: name, size: int64(len(n.data)), mode: n.mode, dir: n.dir}
}

// ------------------------------------------------------------------ path ops

// Stat mirrors os.Stat (no symlinks in this file system).
func Stat(p string) (fs.FileInfo, error) {
	f, parts, err := lookupFS(p)
	if err != nil {
		return nil, perr("stat", p, err)
	}
	n, err := f.walk(parts)
	if err != nil {
		return nil, perr("stat", p, err)
	}
	return infoOf(path.Base(path.Clean("/"+p)), n), nil
}

// Lstat mirrors os.Lstat.
func Lstat(p string) (fs.FileInfo, error) {
	fi, err := Stat(p)
	if err != nil {
		if pe, ok := err.(*fs.PathError); ok {
			pe.Op = "lstat"
		}
	}
	return fi, err
}

// Mkdir mirrors os.Mkdir.
func Mkdir(p string, perm fs.FileMode) error {
	f, parts, err := lookupFS(p)
	if err != nil {
		return perr("mkdir", p, err)
	}
	if f.inert() {
		return perr("mkdir", p, errFrozen)
	}
	d, name, err := f.parent(parts)
	if err != nil {
		return perr("mkdir", p, err)
	}
	if _, ok := d.children[name]; ok {
		return perr("mkdir", p, syscall.EEXIST)
	}
	if _, err := f.step(OpMkdir, p, 0); err != nil {
		return perr("mkdir", p, err)
	}
	d.children[name] = f.newInode(true, perm)
	f.Stats.Mkdirs++
	f.stepAfter()
	return nil
}

// MkdirAll mirrors os.MkdirAll.
func MkdirAll(p string, perm fs.FileMode) error {
	f, parts, err := lookupFS(p)
	if err != nil {
		return perr("mkdir", p, err)
	}
	if f.inert() {
		return perr("mkdir", p, errFrozen)
	}
	m, _ := split(p)
	cur := "/" + m
	n := f.root
	for _, c := range parts {
		cur = cur + "/" + c
		ch, ok := n.children[c]
		if ok {
			if !ch.dir {
				return perr("mkdir", cur, syscall.ENOTDIR)
			}
			n = ch
			continue
		}
		if _, err := f.step(OpMkdir, cur, 0); err != nil {
			return perr("mkdir", cur, err)
		}
		ch = f.newInode(true, perm)
		n.children[c] = ch
		f.Stats.Mkdirs++
		f.stepAfter()
		n = ch
	}
	return nil
}

func (f *FS) tmpSuffix() string {
	if f.TmpName != nil {
		return f.TmpName()
	}
	f.tmpSeq++
	// Looks like os.CreateTemp's decimal random suffix; deterministic.
	return fmt.Sprintf("%d", 1000000000+f.tmpSeq*7919%899999999)
}

func tempName(f *FS, pattern string) (prefix, suffix string, err error) {
	for i := 0; i < len(pattern); i++ {
		if pattern[i] == '/' {
			return "", "", errors.New("pattern contains path separator")
		}
	}
	if pos := strings.LastIndexByte(pattern, '*'); pos != -1 {
		return pattern[:pos], pattern[pos+1:], nil
	}
	return pattern, "", nil
}

// CreateTemp mirrors os.CreateTemp.
func CreateTemp(dir, pattern string) (*File, error) {
	if dir == "" {
		return nil, perr("createtemp", pattern, syscall.ENOENT)
	}
	f, _, err := lookupFS(dir)
	if err != nil {
		return nil, perr("createtemp", dir, err)
	}
	prefix, suffix, err := tempName(f, pattern)
	if err != nil {
		return nil, &fs.PathError{Op: "createtemp", Path: pattern, Err: err}
	}
	for try := 0; try < 10000; try++ {
		name := dir + "/" + prefix + f.tmpSuffix() + suffix
		file, err := OpenFile(name, O_RDWR|O_CREATE|O_EXCL, 0o600)
		if IsExist(err) {
			continue
		}
		return file, err
	}
	return nil, perr("createtemp", dir+"/"+prefix+"*"+suffix, syscall.EEXIST)
}

// MkdirTemp mirrors os.MkdirTemp.
func MkdirTemp(dir, pattern string) (string, error) {
	if dir == "" {
		return "", perr("mkdirtemp", pattern, syscall.ENOENT)
	}
	f, _, err := lookupFS(dir)
	if err != nil {
		return "", perr("mkdirtemp", dir, err)
	}
	prefix, suffix, err := tempName(f, pattern)
	if err != nil {
		return "", &fs.PathError{Op: "mkdirtemp", Path: pattern, Err: err}
	}
	for try := 0; try < 10000; try++ {
		name := dir + "/" + prefix + f.tmpSuffix() + suffix
		err := Mkdir(name, 0o700)
		if err == nil {
			return name, nil
		}
		if IsExist(err) {
			continue
		}
		return "", err
	}
	return "", perr("mkdirtemp", dir+"/"+prefix+"*"+suffix, syscall.EEXIST)
}

// Rename mirrors os.Rename (POSIX rename(2) semantics).
func Rename(oldp, newp string) error {
	f, oparts, err := lookupFS(oldp)
	if err != nil {
		return &LinkError{"rename", oldp, newp, err}
	}
	f2, nparts, err := lookupFS(newp)
	if err != nil {
		return &LinkError{"rename", oldp, newp, err}
	}
	if f != f2 {
		return &LinkError{"rename", oldp, newp, syscall.EXDEV}
	}
	if f.inert() {
		return &LinkError{"rename", oldp, newp, errFrozen}
	}
	od, oname, err := f.parent(oparts)
	if err != nil {
		return &LinkError{"rename", oldp, newp, err}
	}
	src, ok := od.children[oname]
	if !ok {
		return &LinkError{"rename", oldp, newp, syscall.ENOENT}
	}
	nd, nname, err := f.parent(nparts)
	if err != nil {
		return &LinkError{"rename", oldp, newp, err}
	}
	if dst, ok := nd.children[nname]; ok {
		if dst == src {
			return nil
		}
		if src.dir && !dst.dir {
			return &LinkError{"rename", oldp, newp, syscall.ENOTDIR}
		}
		if !src.dir && dst.dir {
			// os.Rename reports EEXIST for file over directory.
			return &LinkError{"rename", oldp, newp, syscall.EEXIST}
		}
		if dst.dir && len(dst.children) > 0 {
			return &LinkError{"rename", oldp, newp, syscall.EEXIST}
		}
	}
	if _, err := f.step(OpRename, oldp+" -> "+newp, 0); err != nil {
		return &LinkError{"rename", oldp, newp, err}
	}
	delete(od.children, oname)
	nd.children[nname] = src
	f.Stats.Renames++
	f.stepAfter()
	return nil
}

// LinkError mirrors os.LinkError.
type LinkError struct {
	Op  string
	Old string
	New string
	Err error
}

func (e *LinkError) Error() string {
	return e.Op + " " + e.Old + " " + e.New + ": " + e.Err.Error()
}
func (e *LinkError) Unwrap() error { return e.Err }

// Remove mirrors os.Remove.
func Remove(p string) error {
	f, parts, err := lookupFS(p)
	if err != nil {
		return perr("remove", p, err)
	}
	if f.inert() {
		return perr("remove", p, errFrozen)
	}
	d, name, err := f.parent(parts)
	if err != nil {
		return perr("remove", p, err)
	}
	n, ok := d.children[name]
	if !ok {
		return perr("remove", p, syscall.ENOENT)
	}
	if n.dir && len(n.children) > 0 {
		return perr("remove", p, syscall.ENOTEMPTY)
	}
	if _, err := f.step(OpRemove, p, 0); err != nil {
		return perr("remove", p, err)
	}
	delete(d.children, name)
	f.Stats.Removes++
	f.stepAfter()
	return nil
}

// RemoveAll mirrors os.RemoveAll: children first, then the directory; a missing
// path is not an error. Each unlink is its own crash point.
func RemoveAll(p string) error {
	f, parts, err := lookupFS(p)
	if err != nil {
		return nil
	}
	if f.inert() {
		return perr("unlinkat", p, errFrozen)
	}
	if len(parts) == 0 {
		return perr("RemoveAll", p, syscall.EINVAL)
	}
	d, name, err := f.parent(parts)
	if err != nil {
		if errors.Is(err, syscall.ENOENT) || errors.Is(err, syscall.ENOTDIR) {
			return nil
		}
		return perr("unlinkat", p, err)
	}
	n, ok := d.children[name]
	if !ok {
		return nil
	}
	if n.dir {
		names := make([]string, 0, len(n.children))
		for c := range n.children {
			names = append(names, c)
		}
		sort.Strings(names)
		for _, c := range names {
			if err := RemoveAll(strings.TrimSuffix(p, "/") + "/" + c); err != nil {
				return err
			}
		}
	}
	if _, err := f.step(OpRemove, p, 0); err != nil {
		return perr("unlinkat", p, err)
	}
	delete(d.children, name)
	f.Stats.Removes++
	f.stepAfter()
	return nil
}

// ReadDir mirrors os.ReadDir (sorted by name).
func ReadDir(p string) ([]fs.DirEntry, error) {
	f, parts, err := lookupFS(p)
	if err != nil {
		return nil, perr("open", p, err)
	}
	n, err := f.walk(parts)
	if err != nil {
		return nil, perr("open", p, err)
	}
	if !n.dir {
		return nil, perr("readdirent", p, syscall.ENOTDIR)
	}
	names := make([]string, 0, len(n.children))
	for c := range n.children {
		names = append(names, c)
	}
	sort.Strings(names)
	out := make([]fs.DirEntry, 0, len(names))
	for _, c := range names {
		out = append(out, infoOf(c, n.children[c]))
	}
	return out, nil
}

// ReadFile mirrors os.ReadFile.
func ReadFile(p string) ([]byte, error) {
	f, parts, err := lookupFS(p)
	if err != nil {
		return nil, perr("open", p, err)
	}
	n, err := f.walk(parts)
	if err != nil {
		return nil, perr("open", p, err)
	}
	if n.dir {
		return nil, perr("read", p, syscall.EISDIR)
	}
	out := make([]byte, len(n.data))
	copy(out, n.data)
	return out, nil
}

// WriteFile mirrors os.WriteFile.
func WriteFile(p string, data []byte, perm fs.FileMode) error {
	file, err := OpenFile(p, O_WRONLY|O_CREATE|O_TRUNC, perm)
	if err != nil {
		return err
	}
	_, err = file.Write(data)
	if err1 := file.Close(); err1 != nil && err == nil {
		err = err1
	}
	return err
}

// Create mirrors os.Create.
func Create(p string) (*File, error) {
	return OpenFile(p, O_RDWR|O_CREATE|O_TRUNC, 0o666)
}

// Open mirrors os.Open.
func Open(p string) (*File, error) { return OpenFile(p, O_RDONLY, 0) }

// OpenFile mirrors os.OpenFile.
func OpenFile(p string, flag int, perm fs.FileMode) (*File, error) {
	f, parts, err := lookupFS(p)
	if err != nil {
		return nil, perr("open", p, err)
	}
	if f.inert() {
		return nil, perr("open", p, errFrozen)
	}
	if len(parts) == 0 {
		return &File{fs: f, gen: f.gen, ino: f.root, name: p, flag: flag}, nil
	}
	d, name, err := f.parent(parts)
	if err != nil {
		return nil, perr("open", p, err)
	}
	n, ok := d.children[name]
	if ok && flag&O_CREATE != 0 && flag&O_EXCL != 0 {
		return nil, perr("open", p, syscall.EEXIST)
	}
	if !ok {
		if flag&O_CREATE == 0 {
			return nil, perr("open", p, syscall.ENOENT)
		}
		if _, err := f.step(OpCreate, p, 0); err != nil {
			return nil, perr("open", p, err)
		}
		n = f.newInode(false, perm)
		d.children[name] = n
		f.Stats.Creates++
		f.stepAfter()
	} else {
		if n.dir && (flag&(O_WRONLY|O_RDWR) != 0) {
			return nil, perr("open", p, syscall.EISDIR)
		}
		if flag&O_TRUNC != 0 && !n.dir && len(n.data) > 0 {
			if _, err := f.step(OpTruncate, p, 0); err != nil {
				return nil, perr("open", p, err)
			}
			n.truncate(0)
			f.Stats.Truncates++
			f.stepAfter()
		}
	}
	return &File{fs: f, gen: f.gen, ino: n, name: p, flag: flag}, nil
}

func (n *inode) markDirty(from int64) {
	if n.lowDirty < 0 || from < n.lowDirty {
		n.lowDirty = from
	}
}

func (n *inode) truncate(size int64) {
	if size < int64(len(n.data)) {
		n.data = n.data[:size]
		n.markDirty(size)
	} else if size > int64(len(n.data)) {
		old := int64(len(n.data))
		n.data = append(n.data, make([]byte, size-old)...)
		n.markDirty(old)
	}
}

// ------------------------------------------------------------------ File

// File mirrors *os.File.
type File struct {
	fs     *FS
	gen    uint64
	ino    *inode
	name   string
	flag   int
	off    int64
	closed bool
}

func (h *File) inert() bool { return h.fs.inert() || h.gen != h.fs.gen }

// Name mirrors (*os.File).Name.
func (h *File) Name() string { return h.name }

func (h *File) check(op string) error {
	if h == nil {
		return fs.ErrInvalid
	}
	if h.closed {
		return &fs.PathError{Op: op, Path: h.name, Err: fs.ErrClosed}
	}
	if h.inert() {
		return &fs.PathError{Op: op, Path: h.name, Err: errFrozen}
	}
	return nil
}

// Read mirrors (*os.File).Read.
func (h *File) Read(b []byte) (int, error) {
	if err := h.check("read"); err != nil {
		return 0, err
	}
	if h.ino.dir {
		return 0, &fs.PathError{Op: "read", Path: h.name, Err: syscall.EISDIR}
	}
	if h.flag&(O_WRONLY|O_RDWR) == O_WRONLY {
		return 0, &fs.PathError{Op: "read", Path: h.name, Err: syscall.EBADF}
	}
	if len(b) == 0 {
		return 0, nil
	}
	if h.off >= int64(len(h.ino.data)) {
		return 0, io.EOF
	}
	n := copy(b, h.ino.data[h.off:])
	h.off += int64(n)
	return n, nil
}

// ReadAt mirrors (*os.File).ReadAt.
func (h *File) ReadAt(b []byte, off int64) (int, error) {
	if err := h.check("read"); err != nil {
		return 0, err
	}
	if off < 0 {
		return 0, &fs.PathError{Op: "readat", Path: h.name, Err: errors.New("negative offset")}
	}
	if off >= int64(len(h.ino.data)) {
		return 0, io.EOF
	}
	n := copy(b, h.ino.data[off:])
	if n < len(b) {
		return n, io.EOF
	}
	return n, nil
}

func (h *File) writeAt(b []byte, off int64) {
	n := h.ino
	if len(b) == 0 {
		return
	}
	durable := n.lowDirty
	if durable < 0 {
		durable = int64(len(n.data))
	}
	if off < durable {
		// In-place overwrite of bytes that were already durable: the power-loss
		// model does not try to describe the outcome (no loss is modelled).
		n.complex = true
	}
	if off > int64(len(n.data)) {
		n.truncate(off)
	}
	end := off + int64(len(b))
	if end > int64(len(n.data)) {
		n.data = append(n.data[:off], b...)
	} else {
		copy(n.data[off:end], b)
	}
	n.markDirty(off)
}

func minI64(a, b int64) int64 {
	if a < b {
		return a
	}
	return b
}

// Write mirrors (*os.File).Write.
func (h *File) Write(b []byte) (int, error) {
	if err := h.check("write"); err != nil {
		return 0, err
	}
	if h.flag&(O_WRONLY|O_RDWR) == 0 {
		return 0, &fs.PathError{Op: "write", Path: h.name, Err: syscall.EBADF}
	}
	torn, err := h.fs.step(OpWrite, h.name, len(b))
	if err != nil {
		if h.fs.ErrPrefix > 0 && h.fs.ErrPrefix < len(b) && err != errFrozen {
			off := h.off
			if h.flag&O_APPEND != 0 {
				off = int64(len(h.ino.data))
			}
			h.writeAt(b[:h.fs.ErrPrefix], off)
			h.off = off + int64(h.fs.ErrPrefix)
			return h.fs.ErrPrefix, &fs.PathError{Op: "write", Path: h.name, Err: err}
		}
		return 0, &fs.PathError{Op: "write", Path: h.name, Err: err}
	}
	off := h.off
	if h.flag&O_APPEND != 0 {
		off = int64(len(h.ino.data))
	}
	if torn >= 0 {
		h.writeAt(b[:torn], off)
		h.fs.Stats.BytesWritten += int64(torn)
		h.fs.crashNow()
		return 0, &fs.PathError{Op: "write", Path: h.name, Err: errFrozen}
	}
	if len(b) > 0 {
		h.writeAt(b, off)
	}
	h.off = off + int64(len(b))
	h.fs.Stats.Writes++
	h.fs.Stats.BytesWritten += int64(len(b))
	h.fs.stepAfter()
	return len(b), nil
}

// WriteString mirrors (*os.File).WriteString.
func (h *File) WriteString(s string) (int, error) { return h.Write([]byte(s)) }

// Seek mirrors (*os.File).Seek.
func (h *File) Seek(offset int64, whence int) (int64, error) {
	if err := h.check("seek"); err != nil {
		return 0, err
	}
	var base int64
	switch whence {
	case io.SeekStart:
		base = 0
	case io.SeekCurrent:
		base = h.off
	case io.SeekEnd:
		base = int64(len(h.ino.data))
	default:
		return 0, &fs.PathError{Op: "seek", Path: h.name, Err: syscall.EINVAL}
	}
	if base+offset < 0 {
		return 0, &fs.PathError{Op: "seek", Path: h.name, Err: syscall.EINVAL}
	}
	h.off = base + offset
	return h.off, nil
}

// Truncate mirrors (*os.File).Truncate: the offset does not move.
func (h *File) Truncate(size int64) error {
	if err := h.check("truncate"); err != nil {
		return err
	}
	if h.flag&(O_WRONLY|O_RDWR) == 0 || size < 0 {
		return &fs.PathError{Op: "truncate", Path: h.name, Err: syscall.EINVAL}
	}
	if _, err := h.fs.step(OpTruncate, h.name, int(size)); err != nil {
		return &fs.PathError{Op: "truncate", Path: h.name, Err: err}
	}
	h.ino.truncate(size)
	h.fs.Stats.Truncates++
	h.fs.stepAfter()
	return nil
}

// Sync mirrors (*os.File).Sync.
func (h *File) Sync() error {
	if err := h.check("sync"); err != nil {
		return err
	}
	if _, err := h.fs.step(OpSync, h.name, 0); err != nil {
		return &fs.PathError{Op: "sync", Path: h.name, Err: err}
	}
	if h.fs.SyncLatency != nil && simrt.S != nil {
		if d := h.fs.SyncLatency(); d > 0 {
			s := simrt.S
			t := s.Cur()
			s.After(d, func() { s.MakeRunnable(t) })
			simrt.Block("fsync")
			if h.inert() {
				return &fs.PathError{Op: "sync", Path: h.name, Err: errFrozen}
			}
		}
	}
	h.ino.lowDirty = -1
	h.ino.complex = false
	h.fs.Stats.Syncs++
	h.fs.stepAfter()
	return nil
}

// Close mirrors (*os.File).Close.
func (h *File) Close() error {
	if h == nil {
		return fs.ErrInvalid
	}
	if h.closed {
		return &fs.PathError{Op: "close", Path: h.name, Err: fs.ErrClosed}
	}
	if h.inert() {
		h.closed = true
		return nil
	}
	if _, err := h.fs.step(OpClose, h.name, 0); err != nil {
		return &fs.PathError{Op: "close", Path: h.name, Err: err}
	}
	h.closed = true
	h.fs.stepAfter()
	return nil
}

// Stat mirrors (*os.File).Stat.
func (h *File) Stat() (fs.FileInfo, error) {
	if err := h.check("stat"); err != nil {
		return nil, err
	}
	return infoOf(path.Base(h.name), h.ino), nil
}

// ------------------------------------------------------------------ images

func (n *inode) clone() *inode {
	c := &inode{dir: n.dir, mode: n.mode, id: n.id, lowDirty: n.lowDirty, complex: n.complex}
	if n.dir {
		c.children = make(map[string]*inode, len(n.children))
		for k, v := range n.children {
			c.children[k] = v.clone()
		}
	} else {
		c.data = append([]byte(nil), n.data...)
	}
	return c
}

// Clone returns an independent, thawed copy of the disk (for oracles that decode
// an image with the code under test's own readers).
func (f *FS) Clone(name string) *FS {
	c := &FS{Name: name, root: f.root.clone(), gen: 1, ino: f.ino, tmpSeq: f.tmpSeq}
	return c
}

// DropUnsynced applies the power-loss model: every file keeps its bytes below
// the lowest offset dirtied since its last Sync, plus a prefix (chosen by pick)
// of the rest. Directory operations are durable (documented assumption).
func (f *FS) DropUnsynced(pick func(n int64) int64) (filesCut int) {
	var rec func(n *inode)
	rec = func(n *inode) {
		if n.dir {
			names := make([]string, 0, len(n.children))
			for c := range n.children {
				names = append(names, c)
			}
			sort.Strings(names)
			for _, c := range names {
				rec(n.children[c])
			}
			return
		}
		if n.lowDirty < 0 || n.complex {
			n.lowDirty = -1
			return
		}
		lo := n.lowDirty
		hi := int64(len(n.data))
		if lo < hi {
			keep := lo + pick(hi-lo+1)
			if keep < hi {
				n.data = n.data[:keep]
				filesCut++
			}
		}
		n.lowDirty = -1
	}
	rec(f.root)
	return filesCut
}

// Dump lists every path with its size (and content hash) in sorted order.
func (f *FS) Dump() []string {
	var out []string
	var rec func(p string, n *inode)
	rec = func(p string, n *inode) {
		if n.dir {
			out = append(out, p+"/")
			names := make([]string, 0, len(n.children))
			for c := range n.children {
				names = append(names, c)
			}
			sort.Strings(names)
			for _, c := range names {
				rec(p+"/"+c, n.children[c])
			}
			return
		}
		h := uint64(1469598103934665603)
		for _, b := range n.data {
			h ^= uint64(b)
			h *= 1099511628211
		}
		out = append(out, fmt.Sprintf("%s %d %016x", p, len(n.data), h))
	}
	rec("", f.root)
	return out
}

// Hash folds the whole image into one number.
func (f *FS) Hash() uint64 {
	h := uint64(1469598103934665603)
	for _, l := range f.Dump() {
		for i := 0; i < len(l); i++ {
			h ^= uint64(l[i])
			h *= 1099511628211
		}
		h ^= 0xff
		h *= 1099511628211
	}
	return h
}
