package simrt

// Rand is a small, fast, seedable PRNG (splitmix64 seeding a xorshift64* core).
// Every random choice of a run comes from streams derived from the one seed.
type Rand struct{ s uint64 }

func splitmix(x *uint64) uint64 {
	*x += 0x9E3779B97F4A7C15
	z := *x
	z = (z ^ (z >> 30)) * 0xBF58476D1CE4E5B9
	z = (z ^ (z >> 27)) * 0x94D049BB133111EB
	return z ^ (z >> 31)
}

// NewRand derives an independent stream from (seed, label).
func NewRand(seed uint64, label string) *Rand {
	h := seed ^ 0xcbf29ce484222325
	for i := 0; i < len(label); i++ {
		h ^= uint64(label[i])
		h *= 1099511628211
	}
	x := h
	r := &Rand{s: splitmix(&x)}
	if r.s == 0 {
		r.s = 0x1234567
	}
	return r
}

func (r *Rand) Uint64() uint64 {
	r.s ^= r.s >> 12
	r.s ^= r.s << 25
	r.s ^= r.s >> 27
	return r.s * 2685821657736338717
}

// Intn returns a value in [0,n). n must be > 0.
func (r *Rand) Intn(n int) int {
	if n <= 0 {
		panic("simrt.Rand.Intn: n <= 0")
	}
	return int(r.Uint64() % uint64(n))
}

// Int63n returns a value in [0,n). n must be > 0.
func (r *Rand) Int63n(n int64) int64 {
	if n <= 0 {
		panic("simrt.Rand.Int63n: n <= 0")
	}
	return int64(r.Uint64() % uint64(n))
}

// Range returns a value in [lo,hi].
func (r *Rand) Range(lo, hi int64) int64 {
	if hi <= lo {
		return lo
	}
	return lo + int64(r.Uint64()%uint64(hi-lo+1))
}

// Float64 returns a value in [0,1).
func (r *Rand) Float64() float64 {
	return float64(r.Uint64()>>11) / float64(1<<53)
}

// Chance returns true with probability p.
func (r *Rand) Chance(p float64) bool {
	if p <= 0 {
		return false
	}
	if p >= 1 {
		return true
	}
	return r.Float64() < p
}

// ProcRand returns the per-process stream used for code-under-test randomness
// (election timers); it is created lazily from the run seed and the process name.
func ProcRand() *Rand {
	s := S
	p := CurProc()
	name := "noproc"
	if p != nil {
		name = p.Name
	}
	if s.procRand == nil {
		s.procRand = make(map[string]*Rand)
	}
	r, ok := s.procRand[name]
	if !ok {
		r = NewRand(s.Seed, "proc:"+name)
		s.procRand[name] = r
	}
	return r
}
