package simrt

import (
	"fmt"
	"reflect"
	"sort"
)

// Locker mirrors sync.Locker.
type Locker interface {
	Lock()
	Unlock()
}

// Mutex mirrors sync.Mutex; who gets a contended lock is the scheduler's choice.
type Mutex struct {
	locked  bool
	owner   *Task
	waiters []*Task
}

// Lock is a scheduling point (before the acquisition).
func (m *Mutex) Lock() {
	t := live()
	if t == nil {
		return
	}
	s := S
	if s.atomic {
		if m.locked {
			panic(atomicAbort{})
		}
		m.locked = true
		m.owner = t
		return
	}
	s.makeRunnable(t)
	s.switchFrom(t)
	for m.locked {
		m.waiters = append(m.waiters, t)
		s.block(t, "mutex")
	}
	m.locked = true
	m.owner = t
}

type atomicAbort struct{}

// TryAtomic runs fn with every scheduling point disabled: a free mutex is taken
// at once, a held one aborts fn (TryAtomic then returns false). The harness
// observer uses it to sample public state right after a lock was released.
func (s *Sim) TryAtomic(fn func()) (ok bool) {
	if s.atomic {
		fn()
		return true
	}
	s.atomic = true
	defer func() {
		s.atomic = false
		if r := recover(); r != nil {
			if _, is := r.(atomicAbort); is {
				ok = false
				return
			}
			panic(r)
		}
	}()
	fn()
	return true
}

// Atomic reports whether the runtime is inside TryAtomic.
func (s *Sim) Atomic() bool { return s.atomic }

// TryLock mirrors sync.Mutex.TryLock.
func (m *Mutex) TryLock() bool {
	t := live()
	if t == nil {
		return true
	}
	if m.locked {
		return false
	}
	m.locked = true
	m.owner = t
	return true
}

// Unlock releases the lock and makes every waiter a candidate for it.
func (m *Mutex) Unlock() {
	t := live()
	if t == nil {
		return
	}
	if !m.locked {
		panic("sync: unlock of unlocked mutex")
	}
	m.locked = false
	m.owner = nil
	if len(m.waiters) > 0 {
		for _, w := range m.waiters {
			S.makeRunnable(w)
		}
		m.waiters = m.waiters[:0]
	}
	if S.OnUnlock != nil && !S.atomic && !S.inObserver {
		S.inObserver = true
		S.OnUnlock()
		S.inObserver = false
	}
}

// Locked reports whether the mutex is held (harness observer only).
func (m *Mutex) Locked() bool { return m.locked }

// RWMutex mirrors sync.RWMutex.
type RWMutex struct {
	writer  bool
	readers int
	waiters []*Task
}

func (m *RWMutex) wakeAll() {
	for _, w := range m.waiters {
		S.makeRunnable(w)
	}
	m.waiters = m.waiters[:0]
}

func (m *RWMutex) Lock() {
	t := live()
	if t == nil {
		return
	}
	s := S
	s.makeRunnable(t)
	s.switchFrom(t)
	for m.writer || m.readers > 0 {
		m.waiters = append(m.waiters, t)
		s.block(t, "rwmutex.w")
	}
	m.writer = true
}

func (m *RWMutex) Unlock() {
	if live() == nil {
		return
	}
	if !m.writer {
		panic("sync: Unlock of unlocked RWMutex")
	}
	m.writer = false
	m.wakeAll()
}

func (m *RWMutex) RLock() {
	t := live()
	if t == nil {
		return
	}
	s := S
	s.makeRunnable(t)
	s.switchFrom(t)
	for m.writer {
		m.waiters = append(m.waiters, t)
		s.block(t, "rwmutex.r")
	}
	m.readers++
}

func (m *RWMutex) RUnlock() {
	if live() == nil {
		return
	}
	if m.readers <= 0 {
		panic("sync: RUnlock of unlocked RWMutex")
	}
	m.readers--
	if m.readers == 0 {
		m.wakeAll()
	}
}

// Cond mirrors sync.Cond.
type Cond struct {
	L       Locker
	waiters []*Task
}

// NewCond mirrors sync.NewCond.
func NewCond(l Locker) *Cond { return &Cond{L: l} }

// Wait releases L, parks until signalled, re-acquires L.
func (c *Cond) Wait() {
	t := live()
	if t == nil {
		return
	}
	c.waiters = append(c.waiters, t)
	c.L.Unlock()
	S.block(t, "cond")
	c.L.Lock()
}

// Signal wakes one waiter; sync.Cond does not promise which, so the PRNG picks.
func (c *Cond) Signal() {
	if live() == nil {
		return
	}
	n := len(c.waiters)
	if n == 0 {
		return
	}
	k := 0
	if n > 1 {
		k = int(S.sched.Uint64() % uint64(n))
	}
	w := c.waiters[k]
	copy(c.waiters[k:], c.waiters[k+1:])
	c.waiters = c.waiters[:n-1]
	S.makeRunnable(w)
}

// Broadcast wakes every waiter.
func (c *Cond) Broadcast() {
	if live() == nil {
		return
	}
	for _, w := range c.waiters {
		S.makeRunnable(w)
	}
	c.waiters = c.waiters[:0]
}

// WaitGroup mirrors sync.WaitGroup.
type WaitGroup struct {
	n       int
	waiters []*Task
}

func (w *WaitGroup) Add(delta int) {
	if live() == nil {
		return
	}
	w.n += delta
	if w.n < 0 {
		panic("sync: negative WaitGroup counter")
	}
	if w.n == 0 {
		for _, t := range w.waiters {
			S.makeRunnable(t)
		}
		w.waiters = w.waiters[:0]
	}
}

func (w *WaitGroup) Done() { w.Add(-1) }

func (w *WaitGroup) Wait() {
	t := live()
	if t == nil {
		return
	}
	for w.n > 0 {
		w.waiters = append(w.waiters, t)
		S.block(t, "waitgroup")
	}
}

// Once mirrors sync.Once (no concurrency under the baton, but f may yield).
type Once struct {
	done bool
	m    Mutex
}

func (o *Once) Do(f func()) {
	if o.done {
		return
	}
	o.m.Lock()
	defer o.m.Unlock()
	if !o.done {
		defer func() { o.done = true }()
		f()
	}
}

// AwaitAny is what a blocking, receive-only select becomes: it parks until one
// of the channels has a buffered value and returns its position; when several
// are ready the PRNG picks. Channels must be buffered (an unbuffered rendezvous
// cannot be modelled by polling and stops the run as an infrastructure error).
func AwaitAny(chans ...interface{}) int {
	t := live()
	if t == nil {
		// Unwinding: behave like a select that never fires is impossible here;
		// report the first channel. The caller is dead and its effects are inert.
		panic(killedSentinel{})
	}
	vals := make([]reflect.Value, len(chans))
	for i, c := range chans {
		v := reflect.ValueOf(c)
		if v.Kind() != reflect.Chan {
			infra("AwaitAny: argument %d is not a channel", i)
		}
		if !v.IsNil() && v.Cap() == 0 {
			infra("AwaitAny: unbuffered channel in a blocking select (cannot be simulated)")
		}
		vals[i] = v
	}
	ready := func() bool {
		for _, v := range vals {
			if !v.IsNil() && v.Len() > 0 {
				return true
			}
		}
		return false
	}
	// A scheduling point even when something is ready already.
	Yield()
	WaitUntil("select", ready)
	var idx []int
	for i, v := range vals {
		if !v.IsNil() && v.Len() > 0 {
			idx = append(idx, i)
		}
	}
	if len(idx) == 0 {
		infra("AwaitAny: woke with nothing ready")
	}
	if len(idx) == 1 {
		return idx[0]
	}
	return idx[int(S.sched.Uint64()%uint64(len(idx)))]
}

func ptrOf(p interface{}) uintptr {
	v := reflect.ValueOf(p)
	switch v.Kind() {
	case reflect.Ptr, reflect.UnsafePointer, reflect.Chan, reflect.Map, reflect.Func, reflect.Slice:
		return v.Pointer()
	}
	infra("Track: not a pointer-like value: %T", p)
	return 0
}

// Keys returns the keys of m in a canonical order (sorted by value; pointer keys
// by the identity given by Track), then permuted by the run's PRNG: Go leaves map
// iteration order unspecified, so every order is legal and the seed decides.
func Keys[K comparable, V any](m map[K]V) []K {
	keys := make([]K, 0, len(m))
	for k := range m {
		keys = append(keys, k)
	}
	if len(keys) < 2 {
		return keys
	}
	s := S
	var k0 interface{} = keys[0]
	switch k0.(type) {
	case string:
		sort.Slice(keys, func(i, j int) bool {
			return interface{}(keys[i]).(string) < interface{}(keys[j]).(string)
		})
	case uint64:
		sort.Slice(keys, func(i, j int) bool {
			return interface{}(keys[i]).(uint64) < interface{}(keys[j]).(uint64)
		})
	case int:
		sort.Slice(keys, func(i, j int) bool {
			return interface{}(keys[i]).(int) < interface{}(keys[j]).(int)
		})
	case int64:
		sort.Slice(keys, func(i, j int) bool {
			return interface{}(keys[i]).(int64) < interface{}(keys[j]).(int64)
		})
	case uint32:
		sort.Slice(keys, func(i, j int) bool {
			return interface{}(keys[i]).(uint32) < interface{}(keys[j]).(uint32)
		})
	default:
		v := reflect.ValueOf(k0)
		switch v.Kind() {
		case reflect.Ptr:
			if s == nil {
				infra("Keys: pointer keys outside a simulation")
			}
			ids := make(map[uintptr]uint64, len(keys))
			for _, k := range keys {
				p := reflect.ValueOf(k).Pointer()
				id, ok := s.tracked[p]
				if !ok {
					infra("Keys: untracked pointer key of type %T", k)
				}
				ids[p] = id
			}
			sort.Slice(keys, func(i, j int) bool {
				return ids[reflect.ValueOf(keys[i]).Pointer()] < ids[reflect.ValueOf(keys[j]).Pointer()]
			})
		case reflect.String, reflect.Int, reflect.Int8, reflect.Int16, reflect.Int32, reflect.Int64,
			reflect.Uint, reflect.Uint8, reflect.Uint16, reflect.Uint32, reflect.Uint64, reflect.Bool:
			sort.Slice(keys, func(i, j int) bool {
				return fmt.Sprintf("%020v", keys[i]) < fmt.Sprintf("%020v", keys[j])
			})
		default:
			infra("Keys: unsupported map key type %T", k0)
		}
	}
	// (Not inside the observer's atomic section: sampling public state must not draw from the
	// PRNG, or adding an observation would change the schedule of the run.)
	if s != nil && live() != nil && !s.atomic {
		for i := len(keys) - 1; i > 0; i-- {
			j := int(s.maprng.Uint64() % uint64(i+1))
			keys[i], keys[j] = keys[j], keys[i]
		}
	}
	return keys
}
