// Package simrt is the deterministic runtime that replaces sync, goroutine
// creation, the clock and the random source of the code under test.
//
// Exactly one task runs at a time (it "holds the baton"); every other task is a
// real goroutine parked on its own wake channel. The task that gives the baton
// up picks the next task itself (direct hand-off), using the simulation's PRNG.
// When nothing is runnable the virtual clock jumps to the next timer.
//
// This package must compile under the language version of the code under test
// (go 1.20): no min/max builtins, no range-over-int, per-loop loop variables.
package simrt

import (
	"fmt"
	"os"
	"runtime/debug"
	"sort"
)

// Epoch is the wall-clock reading of virtual time zero: 2026-01-01T00:00:00Z in
// Unix nanoseconds, so UnixNano() has its real-world 19 digits.
const Epoch int64 = 1767225600 * 1_000_000_000

// killed is the sentinel panic used to unwind the tasks of a crashed process.
type killedSentinel struct{}

// Proc is a simulated OS process (one incarnation of a node, or the harness).
type Proc struct {
	Name string
	Dead bool

	// Clock: local = Offset + virtual*RateNum/RateDen.
	Offset  int64
	RateNum int64
	RateDen int64
	// Last local reading and the offset it was taken with: with a rate below 1 two global
	// instants 1 ns apart would map to one local nanosecond; readings of one process stay
	// strictly increasing unless its clock was stepped (Offset changed) in between.
	LastLocal, LastOffset int64

	// StallUntil: tasks of this process are not scheduled before this virtual time.
	StallUntil int64

	// Storage operation counter and crash trigger, used by simos.
	OpCount     int64
	CrashAtOp   int64 // 0 = off
	CrashPhase  int   // 0 before, 1 after, 2 torn (writes only)
	OnStorageOp func(p *Proc, n int64, kind string, path string, phase int)

	// Fatal / exit bookkeeping.
	ExitCode  int
	Exited    bool
	ExitStack string
	OnExit    func(p *Proc, code int)

	// Arbitrary harness payload.
	Data interface{}

	tasks []*Task
	sim   *Sim
}

// Task is one simulated goroutine.
type Task struct {
	ID    uint64
	Name  string
	Owner *Proc

	wake     chan struct{}
	runnable bool
	done     bool
	killed   bool
	poll     func() bool // non-nil while blocked in a polled wait
	spawned  int         // children spawned so far (for names)
	blockedOn string
}

type timer struct {
	at  int64
	seq uint64
	fn  func()
	idx int
	off bool
}

// Policy selects how the next task is chosen.
type Policy struct {
	// StickyPermille: probability (in 1/1000) that a yielding task simply continues.
	StickyPermille int
	// PCT: if >0, tasks get random priorities and the highest runs, with
	// PCTChange priority change points spread over the run.
	PCT bool
	// SpawnDelayPermille / SpawnDelayMaxNs: probability that a goroutine started by the code
	// under test only begins to run after a virtual delay of up to SpawnDelayMaxNs (the Go
	// scheduler promises nothing about when a new goroutine first runs; without this, every
	// new goroutine reaches its first blocking point before virtual time advances at all).
	SpawnDelayPermille int
	SpawnDelayMaxNs    int64
	spawn              *Rand
}

// Sim is one simulation run.
type Sim struct {
	now   int64
	seq   uint64
	steps uint64

	cur      *Task
	runnable []*Task
	pollers  []*Task
	all      []*Task
	timers   []*timer
	nextID   uint64
	allLive  int

	Seed   uint64
	sched  *Rand
	maprng *Rand
	Policy Policy

	MaxSteps uint64
	Trunc    bool // step budget exhausted

	stopping bool
	finished bool
	doneCh   chan struct{}
	killAck  chan struct{}

	// Infra is set when the runtime itself detected something it cannot model.
	Infra string

	// OnPanic is called (baton held) when a live task panics with a real panic.
	OnPanic func(t *Task, val interface{}, stack string)

	// OnUnlock is called (baton held) right after any simulated mutex was
	// released; the harness observer samples public state there.
	OnUnlock func()
	inObserver bool
	atomic     bool

	// Hash of scheduling decisions, folded into the run's event-log hash.
	SchedHash uint64

	tracked map[uintptr]uint64
	procRand map[string]*Rand
	trackN  uint64

	Harness *Proc
}

// S is the current simulation. All rewritten code reaches the runtime through it.
var S *Sim

// New creates a simulation. Nothing runs until Run.
func New(seed uint64) *Sim {
	s := &Sim{
		Seed:     seed,
		sched:    NewRand(seed, "sched"),
		maprng:   NewRand(seed, "maprange"),
		doneCh:   make(chan struct{}, 1),
		killAck:  make(chan struct{}, 1),
		MaxSteps: 5_000_000,
		tracked:  make(map[uintptr]uint64),
		SchedHash: 1469598103934665603,
	}
	s.Harness = s.NewProc("harness")
	return s
}

// NewProc registers a simulated process.
func (s *Sim) NewProc(name string) *Proc {
	return &Proc{Name: name, RateNum: 1, RateDen: 1, sim: s}
}

// Now returns virtual nanoseconds since the epoch of the run (global clock).
func (s *Sim) Now() int64 { return s.now }

// Tick advances the virtual clock by one nanosecond and returns it.
func (s *Sim) Tick() int64 {
	s.now++
	return s.now
}

// Steps returns the number of scheduling decisions taken.
func (s *Sim) Steps() uint64 { return s.steps }

// Cur returns the running task.
func (s *Sim) Cur() *Task { return s.cur }

// CurProc returns the process of the running task (nil outside a run).
func CurProc() *Proc {
	if S == nil || S.cur == nil {
		return nil
	}
	return S.cur.Owner
}

func infra(format string, args ...interface{}) {
	msg := fmt.Sprintf(format, args...)
	if S != nil && S.Infra == "" {
		S.Infra = msg
	}
	fmt.Fprintf(os.Stderr, "SIMRT-INFRA: %s\n%s\n", msg, debug.Stack())
	os.Exit(2)
}

// ---------------------------------------------------------------- timers

func (s *Sim) timerLess(a, b *timer) bool {
	if a.at != b.at {
		return a.at < b.at
	}
	return a.seq < b.seq
}

func (s *Sim) timerPush(t *timer) {
	t.idx = len(s.timers)
	s.timers = append(s.timers, t)
	i := t.idx
	for i > 0 {
		p := (i - 1) / 2
		if !s.timerLess(s.timers[i], s.timers[p]) {
			break
		}
		s.timers[i], s.timers[p] = s.timers[p], s.timers[i]
		s.timers[i].idx = i
		s.timers[p].idx = p
		i = p
	}
}

func (s *Sim) timerPop() *timer {
	n := len(s.timers)
	top := s.timers[0]
	s.timers[0] = s.timers[n-1]
	s.timers[0].idx = 0
	s.timers = s.timers[:n-1]
	n--
	i := 0
	for {
		l, r := 2*i+1, 2*i+2
		m := i
		if l < n && s.timerLess(s.timers[l], s.timers[m]) {
			m = l
		}
		if r < n && s.timerLess(s.timers[r], s.timers[m]) {
			m = r
		}
		if m == i {
			break
		}
		s.timers[i], s.timers[m] = s.timers[m], s.timers[i]
		s.timers[i].idx = i
		s.timers[m].idx = m
		i = m
	}
	return top
}

// At schedules fn to run (inline, baton held, must not block) at virtual time at.
func (s *Sim) At(at int64, fn func()) {
	if at < s.now {
		at = s.now
	}
	s.seq++
	s.timerPush(&timer{at: at, seq: s.seq, fn: fn})
}

// After schedules fn after d virtual nanoseconds.
func (s *Sim) After(d int64, fn func()) {
	if d < 0 {
		d = 0
	}
	s.At(s.now+d, fn)
}

// ---------------------------------------------------------------- tasks

func (s *Sim) newTask(owner *Proc, name string, fn func()) *Task {
	s.nextID++
	t := &Task{ID: s.nextID, Name: name, Owner: owner, wake: make(chan struct{}, 1)}
	if len(s.all) > 512 && len(s.all) >= 2*s.allLive {
		j := 0
		for _, x := range s.all {
			if !x.done {
				s.all[j] = x
				j++
			}
		}
		for k := j; k < len(s.all); k++ {
			s.all[k] = nil
		}
		s.all = s.all[:j]
		s.allLive = j
	}
	s.all = append(s.all, t)
	if owner != nil {
		if len(owner.tasks) > 128 {
			j := 0
			for _, x := range owner.tasks {
				if !x.done {
					owner.tasks[j] = x
					j++
				}
			}
			for k := j; k < len(owner.tasks); k++ {
				owner.tasks[k] = nil
			}
			owner.tasks = owner.tasks[:j]
		}
		owner.tasks = append(owner.tasks, t)
	}
	go s.taskMain(t, fn)
	return t
}

func (s *Sim) taskMain(t *Task, fn func()) {
	<-t.wake
	if t.killed {
		t.done = true
		s.killAck <- struct{}{}
		return
	}
	defer func() {
		r := recover()
		if t.killed {
			// Unwound because its process crashed (or the run ended).
			t.done = true
			if _, ok := r.(killedSentinel); !ok && r != nil {
				// a different panic while unwinding a dead task: ignored
			}
			if s.cur == t && !s.finished && t.selfKilled() {
				// The task killed its own process: it still holds the baton.
				s.exitTask(t)
				return
			}
			s.killAck <- struct{}{}
			return
		}
		if r != nil {
			if _, ok := r.(killedSentinel); ok {
				infra("killed sentinel in a live task %s", t.Name)
			}
			stack := string(debug.Stack())
			t.done = true
			if s.OnPanic != nil {
				s.OnPanic(t, r, stack)
			} else {
				infra("panic in task %s: %v\n%s", t.Name, r, stack)
			}
		}
		t.done = true
		s.exitTask(t)
	}()
	fn()
}

// selfKill bookkeeping: a task that killed its own process unwinds while holding
// the baton and must hand it over at its root instead of acknowledging a killer.
var selfKillTask *Task

func (t *Task) selfKilled() bool { return selfKillTask == t }

func (s *Sim) exitTask(t *Task) {
	if selfKillTask == t {
		selfKillTask = nil
	}
	t.done = true
	t.runnable = false
	next := s.pickNext(nil)
	if next == nil {
		s.finish()
		return
	}
	s.cur = next
	next.wake <- struct{}{}
}

// live returns the running task, or nil when runtime calls must be inert (the
// caller is a killed task that is unwinding, or the run is over).
func live() *Task {
	s := S
	if s == nil || s.finished || s.cur == nil || s.cur.killed {
		return nil
	}
	return s.cur
}

// Go starts a task owned by the current task's process.
func Go(name string, fn func()) {
	cur := live()
	if cur == nil {
		return
	}
	s := S
	owner := cur.Owner
	cur.spawned++
	pname := fmt.Sprintf("%s/%s#%d", cur.Name, name, cur.spawned)
	if owner != nil && owner.Dead {
		return
	}
	t := s.newTask(owner, pname, fn)
	if p := &s.Policy; p.SpawnDelayPermille > 0 && p.SpawnDelayMaxNs > 0 {
		if p.spawn == nil {
			p.spawn = NewRand(s.Seed, "spawn-delay")
		}
		if p.spawn.Intn(1000) < p.SpawnDelayPermille {
			s.After(p.spawn.Range(1, p.SpawnDelayMaxNs), func() { s.makeRunnable(t) })
			return
		}
	}
	s.makeRunnable(t)
}

// GoProc starts a task owned by an explicit process.
func (s *Sim) GoProc(owner *Proc, name string, fn func()) *Task {
	if owner != nil && owner.Dead {
		return nil
	}
	t := s.newTask(owner, name, fn)
	s.makeRunnable(t)
	return t
}

func (s *Sim) makeRunnable(t *Task) {
	if t.runnable || t.done || t.killed {
		return
	}
	t.runnable = true
	t.blockedOn = ""
	s.runnable = append(s.runnable, t)
}

// MakeRunnable is makeRunnable for sibling packages (simnet, harness).
func (s *Sim) MakeRunnable(t *Task) { s.makeRunnable(t) }

func (s *Sim) removeRunnable(i int) *Task {
	t := s.runnable[i]
	copy(s.runnable[i:], s.runnable[i+1:])
	s.runnable = s.runnable[:len(s.runnable)-1]
	t.runnable = false
	return t
}

func (s *Sim) foldSched(v uint64) {
	s.SchedHash ^= v
	s.SchedHash *= 1099511628211
}

// pickNext chooses the next task to run; self (may be nil) is the yielding task
// if it is still runnable. Returns nil when the run is over.
func (s *Sim) pickNext(self *Task) *Task {
	for {
		if s.stopping {
			return nil
		}
		if s.steps >= s.MaxSteps {
			s.Trunc = true
			return nil
		}
		// Polled waiters (AwaitAny, harness conditions).
		if len(s.pollers) > 0 {
			j := 0
			for _, p := range s.pollers {
				if p.killed || p.done {
					continue
				}
				if p.poll != nil && p.poll() {
					p.poll = nil
					s.makeRunnable(p)
					continue
				}
				s.pollers[j] = p
				j++
			}
			for k := j; k < len(s.pollers); k++ {
				s.pollers[k] = nil
			}
			s.pollers = s.pollers[:j]
		}
		// Eligible = runnable and not stalled.
		n := 0
		stalledMin := int64(-1)
		for _, t := range s.runnable {
			if t.Owner != nil && t.Owner.StallUntil > s.now {
				if stalledMin < 0 || t.Owner.StallUntil < stalledMin {
					stalledMin = t.Owner.StallUntil
				}
				continue
			}
			n++
		}
		if n > 0 {
			s.steps++
			// Sticky: the yielding task continues.
			if self != nil && self.runnable && s.Policy.StickyPermille > 0 &&
				!(self.Owner != nil && self.Owner.StallUntil > s.now) {
				if int(s.sched.Uint64()%1000) < s.Policy.StickyPermille {
					for i, t := range s.runnable {
						if t == self {
							s.removeRunnable(i)
							break
						}
					}
					s.foldSched(self.ID)
					return self
				}
			}
			k := int(s.sched.Uint64() % uint64(n))
			for i, t := range s.runnable {
				if t.Owner != nil && t.Owner.StallUntil > s.now {
					continue
				}
				if k == 0 {
					s.removeRunnable(i)
					s.foldSched(t.ID)
					return t
				}
				k--
			}
			infra("pickNext: eligible task vanished")
		}
		// Nothing eligible: advance the clock.
		if len(s.timers) == 0 && stalledMin < 0 {
			return nil // quiescent: nothing can ever happen again
		}
		if len(s.timers) > 0 && (stalledMin < 0 || s.timers[0].at <= stalledMin) {
			tm := s.timerPop()
			if tm.at > s.now {
				s.now = tm.at
			}
			if !tm.off {
				tm.fn()
			}
			continue
		}
		if stalledMin > s.now {
			s.now = stalledMin
		}
	}
}

// Yield is a scheduling point: the current task stays runnable.
func Yield() {
	t := live()
	if t == nil {
		return
	}
	s := S
	if s.atomic {
		return
	}
	s.makeRunnable(t)
	s.switchFrom(t)
}

// block parks the current task until someone makes it runnable.
func (s *Sim) block(t *Task, why string) {
	if s.atomic {
		panic(atomicAbort{})
	}
	t.blockedOn = why
	s.switchFrom(t)
}

// Block parks the current task until MakeRunnable(task) is called.
func Block(why string) {
	t := live()
	if t == nil {
		return
	}
	S.block(t, why)
}

// WaitUntil parks the current task until cond() holds; cond is polled at every
// scheduling decision and must be cheap and side-effect free.
func WaitUntil(why string, cond func() bool) {
	t := live()
	if t == nil {
		return
	}
	s := S
	if cond() {
		return
	}
	t.poll = cond
	s.pollers = append(s.pollers, t)
	s.block(t, why)
}

func (s *Sim) switchFrom(self *Task) {
	next := s.pickNext(self)
	if next == self {
		return
	}
	if next == nil {
		s.finish()
	} else {
		s.cur = next
		next.wake <- struct{}{}
	}
	<-self.wake
	if self.killed {
		panic(killedSentinel{})
	}
}

func (s *Sim) finish() {
	if s.finished {
		return
	}
	s.finished = true
	s.cur = nil
	s.doneCh <- struct{}{}
}

// Stop ends the run: no further task is scheduled. Called by a task; the caller
// is parked (and later unwound) like everybody else.
func (s *Sim) Stop() {
	s.stopping = true
	t := s.cur
	if t != nil {
		s.switchFrom(t)
	}
}

// Run starts the root task and blocks the calling (real) goroutine until the run
// is over, then unwinds every remaining task so that no goroutine leaks.
func (s *Sim) Run(root func()) {
	S = s
	t := s.newTask(s.Harness, "root", root)
	s.cur = t
	t.wake <- struct{}{}
	<-s.doneCh
	// Unwind everything that is still parked.
	for _, p := range s.all {
		if p.done {
			continue
		}
		p.killed = true
	}
	for _, p := range s.all {
		if p.done {
			continue
		}
		s.cur = p
		p.wake <- struct{}{}
		<-s.killAck
	}
	s.cur = nil
	s.all = nil
	s.runnable = nil
	s.pollers = nil
	s.timers = nil
}

// Blocked lists live tasks that are parked and not waiting on a timer-less
// condition the harness knows about; used for hang detection at quiescence.
func (s *Sim) BlockedTasks() []string {
	var out []string
	for _, t := range s.all {
		if t.done || t.killed || t.runnable {
			continue
		}
		if t.Owner != nil && t.Owner.Dead {
			continue
		}
		out = append(out, t.Name+" on "+t.blockedOn)
	}
	sort.Strings(out)
	return out
}

// KillProc crashes a process: none of its tasks ever runs with effects again.
// Must be called by the running task. If the caller belongs to p it does not
// return (the caller unwinds).
func (s *Sim) KillProc(p *Proc) {
	if p.Dead {
		return
	}
	p.Dead = true
	self := s.cur
	selfDies := false
	for _, t := range p.tasks {
		if t.done {
			continue
		}
		if t == self {
			selfDies = true
			continue
		}
		t.killed = true
		if t.runnable {
			for i, r := range s.runnable {
				if r == t {
					s.removeRunnable(i)
					break
				}
			}
		}
		t.poll = nil
	}
	// Unwind them now, one at a time, while we hold the baton. Their deferred
	// calls run, but every runtime entry point is inert for a killed task.
	for _, t := range p.tasks {
		if t.done || t == self || !t.killed {
			continue
		}
		saved := s.cur
		s.cur = t
		t.wake <- struct{}{}
		<-s.killAck
		s.cur = saved
	}
	p.tasks = nil
	if selfDies {
		self.killed = true
		selfKillTask = self
		panic(killedSentinel{})
	}
}

// Exit is what os.Exit becomes: the calling task's process dies on the spot.
func Exit(code int) {
	t := live()
	if t == nil {
		return
	}
	s := S
	p := t.Owner
	if p == nil || p == s.Harness {
		infra("Exit(%d) called by a harness task %s\n%s", code, t.Name, debug.Stack())
	}
	p.Exited = true
	p.ExitCode = code
	p.ExitStack = string(debug.Stack())
	if p.OnExit != nil {
		p.OnExit(p, code)
	}
	s.KillProc(p)
}

// Dead reports whether the current task has been killed (runtime calls inert).
func Dead() bool { return live() == nil }

// ---------------------------------------------------------------- map order

// Track gives a pointer used as a map key a deterministic identity.
func Track(p interface{}) {
	s := S
	if s == nil {
		return
	}
	s.trackN++
	s.tracked[ptrOf(p)] = s.trackN
}
