// Package simtime replaces package time in the code under test. Types and
// constants are the real ones (aliases); every function that reads or waits on
// the clock goes to the simulation's virtual clock.
package simtime

import (
	"time"

	"github.com/jmsadair/raft/xsim/simrt"
)

type (
	Duration = time.Duration
	Time     = time.Time
	Month    = time.Month
	Weekday  = time.Weekday
	Location = time.Location
)

const (
	Nanosecond  = time.Nanosecond
	Microsecond = time.Microsecond
	Millisecond = time.Millisecond
	Second      = time.Second
	Minute      = time.Minute
	Hour        = time.Hour
)

const (
	RFC3339     = time.RFC3339
	RFC3339Nano = time.RFC3339Nano
)

var UTC = time.UTC

// Unix mirrors time.Unix (pure).
func Unix(sec int64, nsec int64) Time { return time.Unix(sec, nsec) }

var noSim int64

// ResetNoSim restarts the private clock used outside a simulation (one disk-only run = one epoch).
func ResetNoSim() { noSim = 0 }

// local converts the global virtual clock to the calling process's clock.
func local(p *simrt.Proc, v int64) int64 {
	if p == nil || p.RateDen == 0 {
		return v
	}
	return p.Offset + v/p.RateDen*p.RateNum + (v%p.RateDen)*p.RateNum/p.RateDen
}

// toGlobal converts a local duration to a duration of the global virtual clock.
func toGlobal(p *simrt.Proc, d int64) int64 {
	if p == nil || p.RateNum == 0 {
		return d
	}
	g := d / p.RateNum * p.RateDen + (d%p.RateNum)*p.RateDen/p.RateNum
	if g < 0 {
		g = 0
	}
	return g
}

// Now returns the calling process's clock. Every read advances the global
// virtual clock by 1ns, so two readings are never equal (as on real hardware).
func Now() Time {
	s := simrt.S
	if s == nil {
		// Outside a simulation (disk-only sweeps): a private clock, 1ms per reading.
		noSim += 1_000_000
		return time.Unix(0, simrt.Epoch+noSim).UTC()
	}
	v := s.Tick()
	p := simrt.CurProc()
	l := local(p, v)
	if p != nil {
		if l <= p.LastLocal && p.Offset == p.LastOffset {
			l = p.LastLocal + 1
		}
		p.LastLocal, p.LastOffset = l, p.Offset
	}
	return time.Unix(0, simrt.Epoch+l).UTC()
}

// Since mirrors time.Since.
func Since(t Time) Duration { return Now().Sub(t) }

// Until mirrors time.Until.
func Until(t Time) Duration { return t.Sub(Now()) }

// Sleep parks the calling task for d of its process's clock.
func Sleep(d Duration) {
	if simrt.Dead() {
		return
	}
	s := simrt.S
	if d <= 0 {
		simrt.Yield()
		return
	}
	t := s.Cur()
	s.After(toGlobal(simrt.CurProc(), int64(d)), func() { s.MakeRunnable(t) })
	simrt.Block("sleep")
}

// After mirrors time.After: a buffered channel that receives the time once.
func After(d Duration) <-chan Time {
	ch := make(chan Time, 1)
	if simrt.Dead() {
		return ch
	}
	s := simrt.S
	p := simrt.CurProc()
	s.After(toGlobal(p, int64(d)), func() {
		select {
		case ch <- time.Unix(0, simrt.Epoch+local(p, s.Now())).UTC():
		default:
		}
	})
	return ch
}
