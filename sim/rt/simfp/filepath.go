// Package simfp replaces path/filepath in the code under test. Pure functions
// delegate to the real package; Walk is the standard library's algorithm
// (Go 1.23 path/filepath.Walk, copied) running over the simulated disk.
package simfp

import (
	"io/fs"
	"path/filepath"
	"sort"

	"github.com/jmsadair/raft/xsim/simos"
)

type WalkFunc = filepath.WalkFunc

var (
	SkipDir = filepath.SkipDir
	SkipAll = filepath.SkipAll
)

const Separator = filepath.Separator

func Join(elem ...string) string          { return filepath.Join(elem...) }
func Dir(p string) string                 { return filepath.Dir(p) }
func Base(p string) string                { return filepath.Base(p) }
func Clean(p string) string               { return filepath.Clean(p) }
func Ext(p string) string                 { return filepath.Ext(p) }
func IsAbs(p string) bool                 { return filepath.IsAbs(p) }
func Split(p string) (string, string)     { return filepath.Split(p) }
func Rel(a, b string) (string, error)     { return filepath.Rel(a, b) }
func Match(a, b string) (bool, error)     { return filepath.Match(a, b) }
func ToSlash(p string) string             { return filepath.ToSlash(p) }
func FromSlash(p string) string           { return filepath.FromSlash(p) }
func Abs(p string) (string, error) {
	if filepath.IsAbs(p) {
		return filepath.Clean(p), nil
	}
	return filepath.Join("/", p), nil
}

func readDirNames(dirname string) ([]string, error) {
	entries, err := simos.ReadDir(dirname)
	if err != nil {
		return nil, err
	}
	names := make([]string, 0, len(entries))
	for _, e := range entries {
		names = append(names, e.Name())
	}
	sort.Strings(names)
	return names, nil
}

// walk recursively descends path, calling walkFn (verbatim standard library logic).
func walk(path string, info fs.FileInfo, walkFn WalkFunc) error {
	if !info.IsDir() {
		return walkFn(path, info, nil)
	}

	names, err := readDirNames(path)
	err1 := walkFn(path, info, err)
	// If err != nil, walk can't walk into this directory.
	// err1 != nil means walkFn want walk to skip this directory or stop walking.
	// Therefore, if one of err and err1 isn't nil, walk will return.
	if err != nil || err1 != nil {
		// The caller's behavior is controlled by the return value, which is decided
		// by walkFn. walkFn may ignore err and return nil.
		// If walkFn returns SkipDir or SkipAll, it will be handled by the caller.
		// So walk should return whatever walkFn returns.
		return err1
	}

	for _, name := range names {
		filename := Join(path, name)
		fileInfo, err := simos.Lstat(filename)
		if err != nil {
			if err := walkFn(filename, fileInfo, err); err != nil && err != SkipDir {
				return err
			}
		} else {
			err = walk(filename, fileInfo, walkFn)
			if err != nil {
				if !fileInfo.IsDir() || err != SkipDir {
					return err
				}
			}
		}
	}
	return nil
}

// Walk mirrors filepath.Walk.
func Walk(root string, fn WalkFunc) error {
	info, err := simos.Lstat(root)
	if err != nil {
		err = fn(root, nil, err)
	} else {
		err = walk(root, info, fn)
	}
	if err == SkipDir || err == SkipAll {
		return nil
	}
	return err
}
