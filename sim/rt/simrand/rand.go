// Package simrand replaces math/rand in the code under test.
package simrand

import "github.com/jmsadair/raft/xsim/simrt"

// Int63n mirrors rand.Int63n (including its panic on n <= 0).
func Int63n(n int64) int64 {
	if n <= 0 {
		panic("invalid argument to Int63n")
	}
	return simrt.ProcRand().Int63n(n)
}

// Intn mirrors rand.Intn.
func Intn(n int) int {
	if n <= 0 {
		panic("invalid argument to Intn")
	}
	return simrt.ProcRand().Intn(n)
}

// Int63 mirrors rand.Int63.
func Int63() int64 { return int64(simrt.ProcRand().Uint64() >> 1) }

// Int mirrors rand.Int.
func Int() int { return int(simrt.ProcRand().Uint64() >> 1) }

// Float64 mirrors rand.Float64.
func Float64() float64 { return simrt.ProcRand().Float64() }
