module verifsim

go 1.23

require (
	github.com/anishathalye/porcupine v1.3.0
	github.com/jmsadair/raft v0.0.0
)

replace github.com/jmsadair/raft => /verif/.build/dev/raft
